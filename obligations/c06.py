"""C06 — rewards, fee split and DAO field follow the issuance rules: arithmetic kernels (engine M)."""
from mir2smt.ob import *
from mir2smt import terms as T
from mir2smt.exec import OpaqueV, IntV, BoolV, AggV, EnumV, RefV, UNIT, Stop, mk_option, mk_result
from mir2smt import envlib as E
from mir2smt.builtins import deref

CRATES = ["ckb-constant", "ckb-occupied-capacity-core", "ckb-types", "ckb-chain-spec", "ckb-dao-utils", "ckb-dao", "ckb-reward-calculator"]
U64 = (1 << 64) - 1
VAL = []


def cap(v):
    return newtype(v, "Capacity")


def res_ok(ps):
    """(ok condition, value term) of a Result<Capacity,_> valued path set"""
    okc = T.or_(*[T.and_(p.cond(), T.eq(p.value.disc, 0)) for p in returns(ps)])

    def val(v):
        p = v.payload(0)
        return as_int(p[0]) if p else 0
    return okc, merged(ps, val)


def m1_capacity(S):
    ob = "C06.m1"
    ctx = S.ctx()
    a = ctx.int("a", "u64"); b = ctx.int("b", "u64"); n = ctx.int("n", "u64"); d = ctx.int("d", "u64")
    for name, raw in (("safe_add", T.add(a.t, b.t)), ("safe_sub", T.sub(a.t, b.t)), ("safe_mul", T.mul(a.t, b.t))):
        ps = S.run(ctx, "Capacity::" + name, [cap(a), cap(b)])
        okc, v = res_ok(ps)
        S.native(ctx, "cap_" + name, [a.t, b.t], [merged(ps, lambda x: x.disc), v], cond_of(panics(ps)))
        inr = T.and_(T.le(0, raw), T.le(raw, U64))
        S.prove(ctx, ob, name + "_exact_or_overflow", [], T.and_(T.not_(cond_of(panics(ps))), T.iff(okc, inr), T.implies(okc, T.eq(v, raw))))
    ratio = AggV((n, d), "Ratio")
    ps = S.run(ctx, "Capacity::safe_mul_ratio", [cap(a), ratio])
    okc, v = res_ok(ps)
    S.native(ctx, "cap_safe_mul_ratio", [a.t, n.t, d.t], [merged(ps, lambda x: x.disc), v], cond_of(panics(ps)))
    prod = T.mul(a.t, n.t)
    S.prove(ctx, ob, "safe_mul_ratio_is_floor_or_overflow", [],
            T.and_(T.not_(cond_of(panics(ps))), T.iff(okc, T.and_(T.le(prod, U64), T.ne(d.t, 0))), T.implies(okc, T.eq(v, T.ediv(prod, d.t)))))
    S.witness(ctx, ob, "safe_mul_ratio_reach", [okc], T.and_(T.gt(v, 5), T.gt(T.emod(prod, d.t), 0)))
    VAL.append((S, ctx, [{"a": x, "b": y, "n": p, "d": q} for x in (0, 1, 1000, U64) for y in (0, 1, 999, U64) for p in (0, 4, U64) for q in (0, 1, 10, U64)]))


def m2_fee_split(S):
    """per fee: proposer share + committer share == fee, proposer = floor(fee*n/d) (the txs_fees fold step)"""
    ob = "C06.m2"
    ctx = S.ctx()
    fee = ctx.int("fee", "u64"); acc = ctx.int("acc", "u64")
    n = ctx.int("cons.rn", "u64"); d = ctx.int("cons.rd", "u64")
    cons = OpaqueV("cons", "Consensus")
    ctx.env = [(E.rx(r"Consensus::proposer_reward_ratio"), lambda ex, c, a, dd: AggV((n, d), "Ratio"))]
    # the fold closure of RewardCalculator::txs_fees: |acc, tx_fee| ...
    cands = [f for f in S.prog.funcs if f.kind == "fn" and "txs_fees::{closure#0}" in f.name and f.name.endswith("{closure#0}") and f.name.count("{closure") == 1]
    if len(cands) != 1:
        raise Inconclusive(f"txs_fees fold closure: {len(cands)} candidates")
    f = cands[0]
    clo = AggV((ctx.ref_to(ctx.ref_to(cons)),), f.params[0][1])
    if f.params[0][1].startswith("&"):
        clo = ctx.ref_to(AggV((ctx.ref_to(ctx.ref_to(cons)),), f.params[0][1].lstrip("&mut ")))
    ps = S.run(ctx, f, [clo, cap(acc), ctx.ref_to(cap(fee))])
    okc, v = res_ok(ps)
    S.prove(ctx, ob, "fold_step_no_panic", [], T.not_(cond_of(panics(ps))))
    proposer = T.ediv(T.mul(fee.t, n.t), d.t)
    pre = [T.le(n.t, d.t), T.gt(d.t, 0), T.le(T.mul(fee.t, n.t), U64)]
    S.prove(ctx, ob, "shares_sum_to_fee", pre + [T.le(T.add(acc.t, fee.t), U64)],
            T.and_(okc, T.eq(v, T.add(acc.t, T.sub(fee.t, proposer))), T.le(proposer, fee.t)))
    S.prove(ctx, ob, "error_not_wrap", [T.gt(d.t, 0)], T.implies(okc, T.and_(T.le(T.mul(fee.t, n.t), U64), T.le(proposer, fee.t), T.eq(v, T.add(acc.t, T.sub(fee.t, proposer))))))
    # consensus constant (4,10): no fee below 2^64/4 can fail
    S.prove(ctx, ob, "mainnet_ratio_never_fails_below_quarter_range", [T.eq(n.t, 4), T.eq(d.t, 10), T.le(fee.t, U64 // 4), T.le(T.add(acc.t, fee.t), U64)], okc)
    S.witness(ctx, ob, "reach_rounding", pre + [okc], T.gt(T.emod(T.mul(fee.t, n.t), d.t), 0))


def hdr(name):
    return OpaqueV(name, "HeaderView")


def dao_env(ctx, log_pack=True):
    """environment of DaoCalculator: data loader, header accessors, dao field codec"""
    def get_header(ex, callee, args, dty):
        return mk_option(True, hdr("target_parent"), dty)

    def get_epoch_ext(ex, callee, args, dty):
        a = deref(ex, args[1])
        ex.log.append(("get_epoch_ext", callee, [a], list(ex.pc)))
        return mk_option(True, OpaqueV("ep", "EpochExt"), dty)

    def number(ex, callee, args, dty):
        a = deref(ex, args[0])
        return ctx.int(a.name + ".number", "u64")

    def dao_of(ex, callee, args, dty):
        a = deref(ex, args[0])
        return OpaqueV("dao_of." + a.name, "Byte32")

    def extract(ex, callee, args, dty):
        a = deref(ex, args[0])
        base = a.name
        return AggV((ctx.int(base + ".ar", "u64"), cap(ctx.int(base + ".c", "u64")), cap(ctx.int(base + ".s", "u64")), cap(ctx.int(base + ".u", "u64"))), dty)

    def pack(ex, callee, args, dty):
        ex.log.append(("pack", callee, [E.snapshot(ex, a) for a in args], list(ex.pc)))
        return OpaqueV("packed_dao", "Byte32")

    return [
        (E.rx(r"HeaderProvider>::get_header"), get_header),
        (E.rx(r"EpochProvider>::get_epoch_ext"), get_epoch_ext),
        (E.rx(r"HeaderView::number"), number),
        (E.rx(r"HeaderView::dao"), dao_of),
        (E.rx(r"extract_dao_data"), extract),
        (E.rx(r"pack_dao_data"), pack),
        (E.rx(r"HeaderView::data|Header::raw|RawHeader::parent_hash"), E.opaque_call()),
        (E.rx(r"Consensus::secondary_epoch_reward"), lambda ex, c, a, d: cap(ctx.int("cons.g2epoch", "u64"))),
    ]


def epoch_fields(ctx, name="ep"):
    return {"base": ctx.int(f"{name}.1.0", "u64").t, "rem": ctx.int(f"{name}.2.0", "u64").t, "start": ctx.int(f"{name}.5", "u64").t,
            "length": ctx.int(f"{name}.6", "u64").t}


def g2_of(ef, G, num):
    return T.add(T.ediv(G, ef["length"]), T.ite(T.and_(T.ge(num, ef["start"]), T.lt(num, T.add(ef["start"], T.emod(G, ef["length"])))), 1, 0))


def m5_block_rewards(S):
    """primary/secondary block reward of the finalised block: taken from the TARGET's epoch and the PARENT's (C, U)"""
    ob = "C06.m5"
    ctx = S.ctx()
    ctx.env = dao_env(ctx)
    calc = AggV((ctx.ref_to(OpaqueV("cons", "Consensus")), ctx.ref_to(OpaqueV("dl", "DL"))), "DaoCalculator<'a, DL>")
    target = hdr("target")
    ef = epoch_fields(ctx)
    tn = ctx.int("target.number", "u64").t
    G = ctx.int("cons.g2epoch", "u64").t
    pc_ = ctx.int("dao_of.target_parent.c", "u64").t
    pu = ctx.int("dao_of.target_parent.u", "u64").t
    ps = S.run(ctx, "DaoCalculator::secondary_block_reward", [ctx.ref_to(calc), ctx.ref_to(target)])
    okc, v = res_ok(ps)
    sane = [T.gt(ef["length"], 0), T.le(T.add(ef["start"], ef["length"]), U64), T.gt(pc_, 0), T.lt(T.ediv(G, ef["length"]), U64)]
    S.prove(ctx, ob, "secondary_no_panic", sane, T.not_(cond_of(panics(ps))))
    g2 = g2_of(ef, G, tn)
    share = T.ediv(T.mul(g2, pu), pc_)
    S.prove(ctx, ob, "secondary_is_floor_g2_times_parent_u_over_parent_c", sane + [T.gt(tn, 0)],
            T.and_(T.iff(okc, T.le(share, U64)), T.implies(okc, T.eq(v, share))), timeout_s=120)
    S.prove(ctx, ob, "secondary_zero_for_genesis", sane + [T.eq(tn, 0)], T.and_(okc, T.eq(v, 0)))
    # which header feeds the epoch lookup: the target itself
    for k, p in enumerate(returns(ps)):
        for e in p.log:
            if e[0] == "get_epoch_ext":
                if not (isinstance(e[2][0], OpaqueV) and e[2][0].name == "target"):
                    S.prove(ctx, ob, f"path{k}_epoch_lookup_uses_target_header", sane + [p.cond()], False)
                else:
                    S.prove(ctx, ob, f"path{k}_epoch_lookup_uses_target_header", sane, True)
    S.witness(ctx, ob, "secondary_reach", sane + [T.gt(tn, 0), okc], T.and_(T.gt(v, 0), T.lt(v, g2)))
    ps = S.run(ctx, "DaoCalculator::primary_block_reward", [ctx.ref_to(calc), ctx.ref_to(target)])
    okc, v = res_ok(ps)
    S.prove(ctx, ob, "primary_is_epoch_block_reward_of_target", [T.le(T.add(ef["start"], ef["rem"]), U64), T.lt(ef["base"], U64)],
            T.and_(T.not_(cond_of(panics(ps))), okc, T.eq(v, T.add(ef["base"], T.ite(T.and_(T.ge(tn, ef["start"]), T.lt(tn, T.add(ef["start"], ef["rem"]))), 1, 0)))))
    for k, p in enumerate(returns(ps)):
        for e in p.log:
            if e[0] == "get_epoch_ext" and not (isinstance(e[2][0], OpaqueV) and e[2][0].name == "target"):
                S.prove(ctx, ob, f"primary_path{k}_epoch_lookup_uses_target_header", [p.cond()], False)


def m4_dao_field(S):
    """accumulation rule of the DAO field applied to the parent's field"""
    ob = "C06.m4"
    ctx = S.ctx()
    freed = ctx.int("freed", "u64"); added = ctx.int("added", "u64"); interests = ctx.int("interests", "u64")
    env = dao_env(ctx)
    state = {"folds": 0}

    def try_fold(ex, callee, args, dty):
        return mk_result(True, cap(freed), None, dty)
    env += [
        (E.rx(r"as Iterator>::try_fold"), try_fold),
        (E.rx(r"added_occupied_capacities"), lambda ex, c, a, d: mk_result(True, cap(added), None, d)),
        (E.rx(r"withdrawed_interests"), lambda ex, c, a, d: mk_result(True, cap(interests), None, d)),
        (E.rx(r"as Clone>::clone"), lambda ex, c, a, d: OpaqueV("iterclone", d)),
    ]
    ctx.env = env
    calc = AggV((ctx.ref_to(OpaqueV("cons", "Consensus")), ctx.ref_to(OpaqueV("dl", "DL"))), "DaoCalculator<'a, DL>")
    parent = hdr("parent")
    ef = epoch_fields(ctx)
    G = ctx.int("cons.g2epoch", "u64").t
    AR = ctx.int("dao_of.parent.ar", "u64").t; C = ctx.int("dao_of.parent.c", "u64").t
    Sx = ctx.int("dao_of.parent.s", "u64").t; U = ctx.int("dao_of.parent.u", "u64").t
    pn = ctx.int("parent.number", "u64").t
    fn = S.fn("DaoCalculator::dao_field_with_current_epoch")
    ps = S.run(ctx, fn, [ctx.ref_to(calc), OpaqueV("rtxs", "I"), ctx.ref_to(parent), ctx.ref_to(OpaqueV("ep", "EpochExt"))])
    sane = [T.gt(ef["length"], 0), T.le(T.add(ef["start"], ef["length"]), U64), T.gt(C, 0), T.lt(pn, U64), T.le(T.add(ef["start"], ef["rem"]), U64)]
    S.prove(ctx, ob, "no_panic", sane, T.not_(cond_of(panics(ps))))
    num = T.add(pn, 1)
    g2 = g2_of(ef, G, num)
    prim = T.add(ef["base"], T.ite(T.and_(T.ge(num, ef["start"]), T.lt(num, T.add(ef["start"], ef["rem"]))), 1, 0))
    miner = T.ediv(T.mul(g2, U), C)
    ar_inc = T.ediv(T.mul(AR, g2), C)
    spec = {
        "ar": T.add(AR, ar_inc), "c": T.add(C, T.add(prim, g2)),
        "s": T.sub(T.add(Sx, T.sub(g2, miner)), interests.t), "u": T.sub(T.add(U, added.t), freed.t),
    }
    inrange = T.and_(T.le(g2, U64), T.le(prim, U64), T.le(T.add(prim, g2), U64), T.le(miner, U64), T.le(miner, g2), T.le(spec["c"], U64),
                     T.le(T.add(U, added.t), U64), T.le(0, spec["u"]), T.le(T.add(Sx, T.sub(g2, miner)), U64), T.le(0, spec["s"]),
                     T.le(ar_inc, U64), T.le(spec["ar"], U64))
    oks = [p for p in returns(ps) if isinstance(p.value, EnumV) and p.value.disc == 0]
    okc = cond_of(oks)
    S.prove(ctx, ob, "ok_iff_every_intermediate_fits_u64", sane, T.iff(okc, inrange), timeout_s=180)
    for k, p in enumerate(oks):
        packs = [e for e in p.log if e[0] == "pack"]
        if len(packs) != 1:
            raise Inconclusive("pack_dao_data call not observed")
        ar_, c_, s_, u_ = [as_int(x) for x in packs[0][2]]
        S.prove(ctx, ob, f"path{k}_accumulation_rule", sane + [p.cond()],
                T.and_(T.eq(ar_, spec["ar"]), T.eq(c_, spec["c"]), T.eq(s_, spec["s"]), T.eq(u_, spec["u"])), timeout_s=180)
    S.witness(ctx, ob, "reach_ok_with_interest", sane + [okc], T.and_(T.gt(interests.t, 0), T.gt(miner, 0), T.gt(ar_inc, 0)))


def m6_withdraw(S):
    """NervosDAO withdrawal pays occupied + floor(counted * AR_withdraw / AR_deposit); never silently truncated"""
    ob = "C06.m6"
    ctx = S.ctx()
    env = dao_env(ctx)
    occ = ctx.int("occupied", "u64"); capy = ctx.int("capacity", "u64")

    def get_header(ex, callee, args, dty):
        a = deref(ex, args[1])
        return mk_option(True, hdr("hdr_" + a.name), dty)
    env = [(E.rx(r"HeaderProvider>::get_header"), get_header)] + env + [
        (E.rx(r"CellOutput>?::occupied_capacity"), lambda ex, c, a, d: mk_result(True, cap(occ), None, d)),
        (E.rx(r"CellOutput>?::capacity$"), lambda ex, c, a, d: OpaqueV("capfield", "Uint64")),
        (E.rx(r"Uint64 as Into<Capacity>>::into|as Unpack<Capacity>>::unpack|Into<Capacity>"), lambda ex, c, a, d: cap(capy)),
    ]
    ctx.env = env
    calc = AggV((ctx.ref_to(OpaqueV("cons", "Consensus")), ctx.ref_to(OpaqueV("dl", "DL"))), "DaoCalculator<'a, DL>")
    ps = S.run(ctx, "DaoCalculator::calculate_maximum_withdraw",
               [ctx.ref_to(calc), ctx.ref_to(OpaqueV("output", "CellOutput")), cap(ctx.int("datacap", "u64")), ctx.ref_to(OpaqueV("dep", "Byte32")), ctx.ref_to(OpaqueV("wd", "Byte32"))])
    dn = ctx.int("hdr_dep.number", "u64").t; wn = ctx.int("hdr_wd.number", "u64").t
    ard = ctx.int("dao_of.hdr_dep.ar", "u64").t; arw = ctx.int("dao_of.hdr_wd.ar", "u64").t
    okc, v = res_ok(ps)
    counted = T.sub(capy.t, occ.t)
    quot = T.ediv(T.mul(counted, arw), ard)
    S.prove(ctx, ob, "panics_only_on_zero_deposit_rate", [], T.implies(cond_of(panics(ps)), T.eq(ard, 0)))
    # the chain invariant on accumulated rates: AR only grows, starts at 10^16, less than doubles between deposit and withdraw
    inv = [T.ge(ard, 10 ** 16), T.ge(arw, ard)]
    S.prove(ctx, ob, "rejects_non_increasing_heights", inv, T.implies(okc, T.lt(dn, wn)))
    S.prove(ctx, ob, "withdraw_is_occupied_plus_floor_counted_times_rate", inv + [T.lt(dn, wn), T.le(quot, U64)],
            T.and_(T.iff(okc, T.and_(T.ge(counted, 0), T.le(T.add(quot, occ.t), U64))), T.implies(okc, T.eq(v, T.add(occ.t, quot)))), timeout_s=120)
    # no silent truncation: stated precondition under which the `as u64` cast is exact
    r = S.prove(ctx, ob, "no_silent_truncation_when_rate_ratio_below_two", inv + [T.lt(dn, wn), T.lt(arw, T.mul(ard, 2)), T.le(capy.t, U64 // 2)],
                T.implies(okc, T.eq(v, T.add(occ.t, quot))), timeout_s=120)
    S.witness(ctx, ob, "reach_interest", inv + [okc], T.gt(v, capy.t))


def m3_finalize_window(S):
    """which block a cellbase finalises, and where the proposer-reward walk starts"""
    ob = "C06.m3"
    ctx = S.ctx()
    cons = OpaqueV("cons", "Consensus")
    c = ctx.int("w.0", "u64").t; f = ctx.int("w.1", "u64").t
    bn = ctx.int("bn", "u64")
    wpre = [T.le(1, c), T.le(c, f), T.lt(f, 1 << 32)]
    ctx.env = [(E.rx(r"Consensus::tx_proposal_window"), lambda ex, cal, a, d: AggV((IntV(c, "u64"), IntV(f, "u64")), "ProposalWindow"))]
    # finalization_delay_length reads the field directly: run the real getter on a symbolic consensus whose window field is (c,f)
    ps = S.run(ctx, "Consensus::finalize_target", [ctx.ref_to(cons), bn])
    # the window field of `cons` was materialised lazily: find its symbols
    wf = [n for n in ctx.decls if n.startswith("cons.") and n.endswith(".1")]
    if len(wf) != 1:
        raise Inconclusive(f"window field symbols {wf}")
    f2 = T.var(wf[0])
    pre = [T.le(1, f2), T.lt(f2, 1 << 32)]
    some = T.or_(*[T.and_(p.cond(), T.eq(p.value.disc, 1)) for p in returns(ps)])
    val = merged(ps, lambda v: as_int(v.payload(1)[0]) if v.payload(1) else 0)
    S.prove(ctx, ob, "finalize_target_no_panic", pre, T.not_(cond_of(panics(ps))))
    S.prove(ctx, ob, "finalize_target_is_block_minus_far_minus_one", pre,
            T.and_(T.iff(some, T.ne(bn.t, 0)), T.implies(some, T.eq(val, T.imax(0, T.sub(bn.t, T.add(f2, 1)))))))
    S.witness(ctx, ob, "finalize_target_reach", pre + [some], T.gt(val, 3))


def m7_proposer_paid_once(S):
    """proposal_reward's walk back through the commit window: the `proposed` set consulted for a block commits' proposer share is
    the CUMULATIVE union of the proposal sets gathered in all iterations so far (so a share already owed to an earlier proposer is
    not paid again), and every payment is floor(fee * ratio) of the committed transaction's own fee"""
    ob = "C06.m7"
    ctx = S.ctx(unwind=3)
    ctx.uninterpreted_unknown_calls = True
    c = ctx.int("w.0", "u64").t; f = ctx.int("w.1", "u64").t
    rn = ctx.int("ratio.n", "u64"); rd = ctx.int("ratio.d", "u64")
    pnum = ctx.int("parent.number", "u64")
    state = {}

    def nm(ex, v):
        v = deref(ex, v)
        return getattr(v, "name", None) or (T.to_smt(v.t) if isinstance(v, IntV) else type(v).__name__)

    def setv(srcs):
        return AggV(tuple(srcs), "SetModel")

    def extend(ex, callee, args, dty):
        st = deref(ex, args[0])
        add = deref(ex, args[1])
        src = getattr(add, "name", "?")
        base = tuple(st.fields) if isinstance(st, AggV) and st.ty == "SetModel" else (getattr(st, "name", "?"),)
        ex._write(args[0].frame, args[0].local, list(args[0].proj), setv(base + (src,)))
        return UNIT

    def contains(ex, callee, args, dty):
        st = deref(ex, args[0])
        srcs = tuple(st.fields) if isinstance(st, AggV) and st.ty == "SetModel" else (getattr(st, "name", "?"),)
        ex.log.append(("contains", callee, [srcs, len([e for e in ex.log if e[0] == "iter"])], list(ex.pc)))
        return ex.ctx.bool(f"contains_{len(ex.log)}")

    def ids_by_hash(ex, callee, args, dty):
        n = len([e for e in ex.log if e[0] == "ids"])
        ex.log.append(("ids", callee, [nm(ex, args[-1])], list(ex.pc)))
        return OpaqueV(f"ids{n}", dty)

    def get_header(ex, callee, args, dty):
        n = len([e for e in ex.log if e[0] == "iter"])
        ex.log.append(("iter", callee, [], list(ex.pc)))
        return mk_option(True, OpaqueV(f"hdr_back{n}", "HeaderView"), dty)

    def number(ex, callee, args, dty):
        a = deref(ex, args[0])
        name = getattr(a, "name", "?")
        if name == "parent":
            return pnum
        # walking back one block per iteration
        k = int(name[len("hdr_back"):]) + 1 if name.startswith("hdr_back") else 0
        return IntV(T.sub(pnum.t, k), "u64")

    def zip_next(ex, callee, args, dty):
        key = ("zip", id(deref(ex, args[0])) if False else len([e for e in ex.log if e[0] == "iter"]))
        n = len([e for e in ex.log if e[0] == "zipnext" and e[2][0] == key[1]])
        ex.log.append(("zipnext", callee, [key[1]], list(ex.pc)))
        if n == 0:
            fee = ctx.int(f"fee_iter{key[1]}", "u64")
            item = AggV((OpaqueV(f"id_iter{key[1]}", "ProposalShortId"), ex.ctx.ref_to(newtype(fee, "Capacity"))), "(ProposalShortId, &Capacity)")
            return mk_option(True, item, dty)
        return mk_option(False, None, dty)

    ctx.env = list(E.LOGGING_OFF) + [
        (E.rx(r"Consensus::tx_proposal_window$"), lambda ex, cal, a, d: AggV((IntV(c, "u64"), IntV(f, "u64")), "ProposalWindow")),
        (E.rx(r"Consensus::proposer_reward_ratio$"), lambda ex, cal, a, d: AggV((rn, rd), "Ratio")),
        (E.rx(r"get_proposal_ids_by_hash$"), ids_by_hash),
        (E.rx(r"HeaderView::number$"), number),
        (E.rx(r"HeaderView::hash$|HeaderView::data$|Header::raw$|RawHeader::parent_hash$"), lambda ex, cal, a, d: OpaqueV("h(" + nm(ex, a[0]) + ")", d)),
        (E.rx(r"HeaderView as ToOwned>::to_owned$"), lambda ex, cal, a, d: deref(ex, a[0])),
        (E.rx(r"ChainStore>::get_block_header$"), get_header),
        (E.rx(r"ChainStore>::get_block_hash$"), lambda ex, cal, a, d: mk_option(True, OpaqueV("hash_at(" + nm(ex, a[-1]) + ")", "Byte32"), d)),
        (E.rx(r"HashSet::<ProposalShortId>::new$"), lambda ex, cal, a, d: setv(())),
        (E.rx(r"as Extend<ProposalShortId>>::extend"), extend),
        (E.rx(r"HashSet::<ProposalShortId>::contains"), contains),
        (E.rx(r"HashSet::<ProposalShortId>::remove"), lambda ex, cal, a, d: ex.ctx.bool(f"removed_{len(ex.log)}_{len(ex.choices)}")),
        (E.rx(r"HashSet::<ProposalShortId>::is_empty$"), lambda ex, cal, a, d: ex.ctx.bool(f"targets_empty_{len([e for e in ex.log if e[0] == 'iter'])}")),
        (E.rx(r"Option::<&ProposalShortId>::is_some$"), lambda ex, cal, a, d: ex.ctx.bool(f"has_committed_{len([e for e in ex.log if e[0] == 'iter'])}")),
        (E.rx(r"Zip<.*> as Iterator>::next$"), zip_next),
        (E.rx(r"as Fn<.*>>::call$"), E.opaque_call()),
        (E.rx(r"HashSet::<ProposalShortId>::intersection|as Iterator>::(cloned|collect|zip|next)|impl \[.*\]>::iter$|as IntoIterator>::into_iter$|as Deref>::deref$"), E.opaque_call()),
    ]
    fn = S.fn("RewardCalculator::proposal_reward")
    me = OpaqueV("rc", "RewardCalculator<'_, CS>")
    ps = S.run(ctx, fn, [ctx.ref_to(me), ctx.ref_to(OpaqueV("parent", "HeaderView")), ctx.ref_to(OpaqueV("target", "HeaderView"))], allow=("return", "panic", "unwind"))
    pre = [T.le(1, c), T.le(c, f), T.lt(f, 1 << 32), T.le(rn.t, rd.t), T.gt(rd.t, 0), T.lt(pnum.t, (1 << 63))]
    S.prove(ctx, ob, "no_panic", pre, T.not_(T.or_(*[p.cond() for p in ps if p.outcome == "panic"])))
    seen = 0
    for k, p in enumerate([p for p in ps if p.outcome == "return"]):
        for e in p.log:
            if e[0] == "contains":
                seen += 1
                srcs, it = e[2]
                want = tuple(f"ids{i}" for i in range(1, it + 1))      # ids0 = the target's own proposals
                S.prove(ctx, ob, f"path{k}_iteration{it}_proposed_set_is_cumulative", pre + [p.cond()], bool(tuple(srcs) == want))
    if seen == 0:
        raise Inconclusive("HashSet::contains on `proposed` never reached")
    S.witness(ctx, ob, "reach_two_iterations", pre, T.or_(*[p.cond() for p in ps if p.outcome == "return" and len([e for e in p.log if e[0] == "iter"]) >= 2]))




def m8_withdraw_step(S):
    """DaoCalculator::transaction_maximum_withdraw, the per-input fold step: a withdrawing NervosDAO input contributes
    calculate_maximum_withdraw(its own output, data_bytes * 10^8 shannons of data occupation, deposit header, withdrawing header) and
    every other input its plain capacity; contributions are added without wrap-around"""
    from mir2smt.srcinfo import field_index
    ob = "C06.m8"
    ctx = S.ctx()
    ctx.uninterpreted_unknown_calls = True
    cands = [f for f in S.prog.funcs if f.kind == "fn" and f.name.endswith("transaction_maximum_withdraw::{closure#0}") and "util/dao/src/lib.rs" in f.name]
    if len(cands) != 1:
        raise Inconclusive(f"transaction_maximum_withdraw fold closure: {len(cands)} candidates")
    f = cands[0]
    fi = field_index("util/types/src/core/cell.rs", "CellMeta")
    nfields = len(fi)
    data_bytes = ctx.int("cell.data_bytes", "u64")
    cm_fields = []
    for name, idx in sorted(fi.items(), key=lambda kv: kv[1]):
        cm_fields.append(data_bytes if name == "data_bytes" else OpaqueV("cell." + name, "?"))
    cell = AggV(tuple(cm_fields), "CellMeta")
    is_dao = ctx.bool("is_dao_type"); has_type = ctx.bool("has_type"); withdrawing = ctx.bool("is_withdrawing")
    wd_known = ctx.bool("withdraw_header_in_deps"); idx_ok = ctx.bool("witness_index_ok"); dep_known = ctx.bool("deposit_header_in_deps")
    acc = ctx.int("acc", "u64"); plain = ctx.int("plain_capacity", "u64"); wres = ctx.int("withdraw_result", "u64"); w_ok = ctx.bool("withdraw_ok")
    calls = []

    def calc(ex, c, a, d):
        calls.append((list(ex.pc), [E.snapshot(ex, x) for x in a]))
        return mk_result(w_ok.t, cap(wres), OpaqueV("werr", "DaoError"), d)

    def opt(flag, val):
        return lambda ex, c, a, d: mk_option(flag.t, val(ex) if callable(val) else val, d)

    ctx.env = [
        (E.rx(r"Option::<Script>::map::<bool,"), lambda ex, c, a, d: mk_option(has_type.t, is_dao, d)),
        (E.rx(r"ScriptOpt::to_opt$|CellOutput::type_$"), E.opaque_call()),
        (E.rx(r"as Fn<\(&CellMeta,\)>>::call$"), lambda ex, c, a, d: withdrawing),
        (E.rx(r"Option::<&Byte32>::filter::<"), lambda ex, c, a, d: mk_option(wd_known.t, ex.ctx.ref_to(OpaqueV("withdraw_hash", "Byte32")), d)),
        (E.rx(r"Option::<.*TransactionInfo>::as_ref$|Option::<&.*TransactionInfo>::map::<&Byte32"), E.opaque_call()),
        (E.rx(r"TransactionView::witnesses$|BytesVec::get$"), E.opaque_call()),
        (E.rx(r"Option::<.*packed::Bytes>::ok_or::<DaoError>$"), E.opaque_call()),
        (E.rx(r"Result::<.*packed::Bytes, DaoError>::and_then::<u64,"), lambda ex, c, a, d: mk_result(idx_ok.t, ex.ctx.int("dep_index", "u64"), OpaqueV("ierr", "DaoError"), d)),
        (E.rx(r"Result::<u64, DaoError>::and_then::<&Byte32,"), lambda ex, c, a, d: (lambda r: EnumV(T.ite(T.and_(T.eq(r.disc, 0), dep_known.t), 0, 1), ((0, (ex.ctx.ref_to(OpaqueV("deposit_hash", "Byte32")),)), (1, (OpaqueV("derr", "DaoError"),))), d))(deref(ex, a[0]))),
        (E.rx(r"calculate_maximum_withdraw$"), calc),
        (E.rx(r"CellOutput::capacity$"), lambda ex, c, a, d: OpaqueV("capfield", "Uint64")),
        (E.rx(r"Uint64 as Into<Capacity>>::into$"), lambda ex, c, a, d: cap(plain)),
        (E.rx(r"as From<CapacityError>>::from$|as Into<DaoError>>::into$"), E.opaque_call()),
    ]
    # captured: self, header_deps, rtx (order from the closure's debug map)
    caps = {}
    import re as _re
    for name, place in f.debug.items():
        m = _re.match(r"\(\*\(\(\*_1\)\.(\d+): ", place)
        if m:
            caps[int(m.group(1))] = name
    clo = ctx.ref_to(AggV(tuple(ctx.ref_to(OpaqueV(caps.get(i, f"cap{i}"), "?")) for i in range(len(caps))), f.params[0][1].replace("&mut ", "")))
    i = ctx.int("i", "usize")
    ps = S.run(ctx, f, [clo, cap(acc), AggV((i, ctx.ref_to(cell)), "(usize, &CellMeta)")])
    S.prove(ctx, ob, "no_panic", [], T.not_(cond_of(panics(ps))))
    okc, v = res_ok(ps)
    dao_in = T.and_(has_type.t, is_dao.t, withdrawing.t)
    data_cap = T.mul(data_bytes.t, 100000000)
    S.prove(ctx, ob, "plain_input_adds_its_capacity", [T.not_(dao_in)], T.and_(T.iff(okc, T.le(T.add(acc.t, plain.t), U64)), T.implies(okc, T.eq(v, T.add(acc.t, plain.t)))))
    S.prove(ctx, ob, "dao_input_adds_the_withdraw_amount", [dao_in],
            T.and_(T.iff(okc, T.and_(wd_known.t, idx_ok.t, dep_known.t, T.le(data_cap, U64), w_ok.t, T.le(T.add(acc.t, wres.t), U64))), T.implies(okc, T.eq(v, T.add(acc.t, wres.t)))))
    if not calls:
        raise Inconclusive("calculate_maximum_withdraw is never reached")
    for k, (pc, a) in enumerate(calls):
        out, dcap, dep, wd = a[1], a[2], a[3], a[4]
        S.prove(ctx, ob, f"call{k}_data_occupation_is_data_bytes_in_shannons", pc, T.eq(as_int(dcap), data_cap))
        S.prove(ctx, ob, f"call{k}_uses_own_output_and_both_headers", pc,
                bool(getattr(out, "name", "") == "cell.cell_output" and getattr(dep, "name", "") == "deposit_hash" and getattr(wd, "name", "") == "withdraw_hash"),
                extra={"note": f"output={getattr(out, 'name', out)} deposit={getattr(dep, 'name', dep)} withdraw={getattr(wd, 'name', wd)}"})
        S.prove(ctx, ob, f"call{k}_only_for_withdrawing_dao_inputs", pc, dao_in)
    S.witness(ctx, ob, "reach_dao_ok", [dao_in, okc], T.gt(data_bytes.t, 8))


def m9_satoshi_gift(S):
    """modified_occupied_capacity: the 60% rule applies only to the genesis cellbase cell locked to the satoshi key; every other cell
    counts its real occupied capacity"""
    ob = "C06.m9"
    ctx = S.ctx()
    ctx.uninterpreted_unknown_calls = True
    has_info = ctx.bool("has_tx_info"); gen = ctx.bool("is_genesis"); cb = ctx.bool("is_cellbase"); args_match = ctx.bool("args_are_satoshi_key")
    capy = ctx.int("capacity", "u64"); occ = ctx.int("occupied", "u64"); occ_ok = ctx.bool("occupied_ok")
    n = ctx.int("ratio.n", "u64"); d_ = ctx.int("ratio.d", "u64")
    from mir2smt.srcinfo import field_index
    fi = field_index("util/types/src/core/cell.rs", "CellMeta")
    flds = []
    for name, idx in sorted(fi.items(), key=lambda kv: kv[1]):
        flds.append(mk_option(has_info.t, OpaqueV("txinfo", "TransactionInfo"), "Option<TransactionInfo>") if name == "transaction_info" else OpaqueV("cell." + name, "?"))
    cell = AggV(tuple(flds), "CellMeta")
    ci = field_index("spec/src/consensus.rs", "Consensus")
    cons = OpaqueV("cons", "Consensus")
    ratio_idx = ci["satoshi_cell_occupied_ratio"]
    ctx.env = [
        (E.rx(r"TransactionInfo::is_genesis$"), lambda ex, c, a, dd: gen),
        (E.rx(r"TransactionInfo::is_cellbase$"), lambda ex, c, a, dd: cb),
        (E.rx(r"as PartialEq<.*>>::(eq|ne)$"), lambda ex, c, a, dd: BoolV(args_match.t if c.endswith("eq") else T.not_(args_match.t))),
        (E.rx(r"CellMeta::occupied_capacity$"), lambda ex, c, a, dd: mk_result(occ_ok.t, cap(occ), OpaqueV("cerr", "CapacityError"), dd)),
        (E.rx(r"Uint64 as Into<Capacity>>::into$|as Unpack<Capacity>>::unpack$"), lambda ex, c, a, dd: cap(capy)),
        (E.rx(r"CellOutput::(lock|capacity)$|Script::args$|Bytes::raw_data$|as Index<.*>>::index$|as Deref>::deref$"), E.opaque_call()),
    ]
    ctx.add_side(T.and_(T.eq(ctx.int(f"cons.{ratio_idx}.0", "u64").t, n.t), T.eq(ctx.int(f"cons.{ratio_idx}.1", "u64").t, d_.t)))
    ps = S.run(ctx, "modified_occupied_capacity", [ctx.ref_to(cell), ctx.ref_to(cons)], nparams=2)
    S.prove(ctx, ob, "no_panic", [T.gt(d_.t, 0)], T.not_(cond_of(panics(ps))))
    okc, v = res_ok(ps)
    gift = T.and_(has_info.t, gen.t, cb.t, args_match.t)
    prod = T.mul(capy.t, n.t)
    S.prove(ctx, ob, "gift_cell_counts_the_ratio", [gift, T.gt(d_.t, 0)], T.and_(T.iff(okc, T.le(prod, U64)), T.implies(okc, T.eq(v, T.ediv(prod, d_.t)))))
    S.prove(ctx, ob, "every_other_cell_counts_its_occupied_capacity", [T.not_(gift)], T.and_(T.iff(okc, occ_ok.t), T.implies(okc, T.eq(v, occ.t))))
    S.witness(ctx, ob, "reach_gift", [gift, okc], T.gt(v, 1))


OBLIGATIONS = [m1_capacity, m2_fee_split, m3_finalize_window, m4_dao_field, m5_block_rewards, m6_withdraw, m7_proposer_paid_once, m8_withdraw_step, m9_satoshi_gift]


def validate(S, native):
    cases, mism = 0, []
    for (S_, ctx, inputs) in VAL:
        c, m = S.validate(ctx, inputs)
        cases += c
        mism += m
    del VAL[:]
    return {"cases": cases, "mismatches": mism}


ENGINE = "M"
LEVEL = "other"
EXPLANATION = ("Arithmetic kernels of reward and DAO accounting (Capacity safe ops, fee split fold step, DAO field accumulation, secondary/primary block reward, "
               "maximum withdraw, finalize target) symbolically executed from their MIR with store/data-loader calls as environment symbols and compared with the "
               "issuance rules written independently in SMT, for all 64-bit values.")
BOUNDS = {"values": "all u64 / u128 intermediates, no bound", "outside": "earliest-proposer search over HashSets, U == sum of occupied(live cells) over a history, cellbase output shape, sums over transactions (enter as symbols)"}
ASSUMPTIONS = ["the three per-block capacity sums (freed, added, interests) enter dao_field_with_current_epoch as arbitrary u64 symbols",
               "extract_dao_data/pack_dao_data are environment symbols here (their byte layout is outside)",
               "accumulated rate invariant for the withdraw obligation: AR_withdraw >= AR_deposit >= 10^16"]
TRUSTED = []
LEVEL_TEXT = ("The accumulation rule, fee split and reward formulas are decided equal to the RFC formulas by SMT over all u64 inputs (engine M); "
              "the history-level clauses (each proposer share paid once, U equals live occupied capacity) depend on hash containers and the store and are outside.")
LEVEL_NOTE = "Trusted: MIR->SMT translator, environment contracts listed in assumptions, cvc5/z3. Outside: HashSet-based earliest-proposer logic, store wiring, cellbase shape."
TECHNIQUE = "symbolic execution of rustc MIR -> integer-theory SMT (cvc5 + z3) with environment symbols for store/data-loader calls"
