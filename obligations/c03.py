"""C03 — block acceptance rules: header-level verifiers, epoch/target match, propose/commit window, size limits (engine M).
Whole-block iff, uncle descent, merkle roots, cellbase shape and the transactional refusal clause are outside."""
import re
from mir2smt.ob import *
from mir2smt import terms as T
from mir2smt.exec import OpaqueV, IntV, BoolV, AggV, EnumV, RefV, UNIT, Stop, mk_option
from mir2smt import envlib as E
from mir2smt.builtins import deref
from obligations import c20 as _c20

CRATES = ["ckb-constant", "ckb-occupied-capacity-core", "ckb-types", "ckb-traits", "ckb-chain-spec", "ckb-proposal-table", "ckb-verification", "ckb-verification-contextual", "ckb-chain"]
U64 = (1 << 64) - 1
ERR = [(E.rx(r"as Into<.*Error>>::into$|Error as From<.*>>::from$|ErrorKind::because|::other$"), E.opaque_call())]


def fields(x):
    return (T.emod(x, 1 << 24), T.emod(T.ediv(x, 1 << 24), 1 << 16), T.emod(T.ediv(x, 1 << 40), 1 << 16))


def is_ok(ps):
    return T.or_(*[T.and_(p.cond(), T.eq(p.value.disc, 0)) for p in returns(ps)])


def header_env(ctx, num=None, epoch=None, ts=None, compact=None, genesis=None):
    env = []
    if num is not None:
        env.append((E.rx(r"HeaderView::number$"), lambda ex, c, a, d: num))
    if epoch is not None:
        env.append((E.rx(r"HeaderView::epoch$"), lambda ex, c, a, d: AggV((epoch,), "EpochNumberWithFraction")))
    if ts is not None:
        env.append((E.rx(r"HeaderView::timestamp$"), lambda ex, c, a, d: ts))
    if compact is not None:
        env.append((E.rx(r"HeaderView::compact_target$"), lambda ex, c, a, d: compact))
    if genesis is not None:
        env.append((E.rx(r"(HeaderView|BlockView)::is_genesis$"), lambda ex, c, a, d: BoolV(genesis)))
    return env


def m1_number_epoch(S):
    ob = "C03.m1"
    ctx = S.ctx()
    n = ctx.int("hdr.number", "u64"); parent = ctx.int("parent", "u64")
    ctx.env = header_env(ctx, num=n) + ERR
    me = AggV((parent, ctx.ref_to(OpaqueV("hdr", "HeaderView"))), "NumberVerifier<'a>")
    # field order of NumberVerifier { parent, header }: checked through the constructor
    def hv(name, np):
        c = [f for f in S.prog.find("NumberVerifier::" + name, np) if "header_verifier.rs" in (f.impl_span or "")]
        if len(c) != 1:
            raise Inconclusive(f"NumberVerifier::{name}: {len(c)} candidates")
        return c[0]
    psn = S.run(ctx, hv("new", 2), [parent, ctx.ref_to(OpaqueV("hdr", "HeaderView"))])
    me = returns(psn)[0].value
    ps = S.run(ctx, hv("verify", 1), [ctx.ref_to(me)])
    S.prove(ctx, ob, "number_ok_iff_parent_plus_one", [T.lt(parent.t, U64)], T.and_(T.not_(cond_of(panics(ps))), T.iff(is_ok(ps), T.eq(n.t, T.add(parent.t, 1)))))
    S.witness(ctx, ob, "number_reach_ok", [T.lt(parent.t, U64)], is_ok(ps))
    # header-level EpochVerifier
    ctx = S.ctx()
    e = ctx.int("hdr.epoch", "u64"); pe = ctx.int("parent_epoch", "u64")
    ctx.env = header_env(ctx, epoch=e) + ERR
    cands = [f for f in S.prog.by_short.get("new", []) if "header_verifier.rs" in f.name and len(f.params) == 2 and "EpochNumberWithFraction" in f.params[0][1]]
    if len(cands) != 1:
        raise Inconclusive(f"header EpochVerifier::new: {len(cands)}")
    me = returns(S.run(ctx, cands[0], [AggV((pe,), "EpochNumberWithFraction"), ctx.ref_to(OpaqueV("hdr", "HeaderView"))]))[0].value
    vf = [f for f in S.prog.by_short.get("verify", []) if f.impl_span == cands[0].impl_span]
    ps = S.run(ctx, vf[0], [ctx.ref_to(me)])
    hn, hi, hl = fields(e.t); pn, pi, pl = fields(pe.t)
    wf = T.and_(T.gt(hl, 0), T.gt(hl, hi))
    pgen = T.and_(T.eq(pn, 0), T.eq(pi, 0), T.eq(pl, 0))
    succ = T.ite(T.eq(T.add(pi, 1), pl), T.and_(T.eq(hn, T.add(pn, 1)), T.eq(hi, 0)), T.and_(T.eq(hn, pn), T.eq(hi, T.add(pi, 1)), T.eq(hl, pl)))
    S.prove(ctx, ob, "epoch_ok_iff_well_formed_and_successor_or_parent_genesis", [], T.and_(T.not_(cond_of(panics(ps))), T.iff(is_ok(ps), T.and_(wf, T.or_(pgen, succ)))))
    S.witness(ctx, ob, "epoch_reach_next_epoch", [is_ok(ps)], T.eq(hn, T.add(pn, 1)))


def m2_timestamp(S):
    ob = "C03.m2"
    ctx = S.ctx()
    ts = ctx.int("hdr.timestamp", "u64"); now = ctx.int("now", "u64"); med = ctx.int("median", "u64"); gen = ctx.bool("is_genesis")
    calls = []
    ctx.env = header_env(ctx, ts=ts, genesis=gen.t) + ERR + [
        (E.rx(r"block_median_time$"), lambda ex, c, a, d: (calls.append(deref(ex, a[-1])), med)[1]),
        (E.rx(r"HeaderView::data|Header::raw|RawHeader::parent_hash"), E.opaque_call()),
        (E.rx(r"unix_time_as_millis"), lambda ex, c, a, d: now),
    ]
    mbc = ctx.int("median_block_count", "usize")
    mk = S.run(ctx, "TimestampVerifier::new", [ctx.ref_to(OpaqueV("dl", "DL")), ctx.ref_to(OpaqueV("hdr", "HeaderView")), mbc])
    me = returns(mk)[0].value
    ps = S.run(ctx, "TimestampVerifier::verify", [ctx.ref_to(me)])
    pre = [T.le(T.add(now.t, 15000), U64)]
    S.prove(ctx, ob, "no_panic_unless_now_near_u64_max", pre, T.not_(cond_of(panics(ps))))
    S.prove(ctx, ob, "ok_iff_above_median_and_at_most_15s_ahead", pre, T.iff(is_ok(ps), T.or_(gen.t, T.and_(T.lt(med.t, ts.t), T.le(ts.t, T.add(now.t, 15000))))))
    S.prove(ctx, ob, "median_taken_over_the_configured_block_count", pre, bool(all(isinstance(c, IntV) and c.t == mbc.t for c in calls) and calls))
    S.witness(ctx, ob, "reach_boundary", pre + [is_ok(ps), T.not_(gen.t)], T.eq(ts.t, T.add(now.t, 15000)))


def m3_contextual_epoch(S):
    ob = "C03.m3"
    ctx = S.ctx()
    e = ctx.int("hdr.epoch", "u64"); n = ctx.int("hdr.number", "u64"); ct = ctx.int("hdr.compact", "u32")
    ctx.env = header_env(ctx, num=n, epoch=e, compact=ct) + ERR + [(E.rx(r"BlockView::header$"), lambda ex, c, a, d: OpaqueV("hdr", "HeaderView"))]
    ep = OpaqueV("ep", "EpochExt")
    cands = [f for f in S.prog.by_short.get("new", []) if "contextual_block_verifier.rs" in f.name and len(f.params) == 2 and "EpochExt" in f.params[0][1]]
    if len(cands) != 1:
        raise Inconclusive(f"contextual EpochVerifier::new: {len(cands)}")
    me = returns(S.run(ctx, cands[0], [ctx.ref_to(ep), ctx.ref_to(OpaqueV("blk", "BlockView"))]))[0].value
    vf = [f for f in S.prog.by_short.get("verify", []) if f.impl_span == cands[0].impl_span]
    ps = S.run(ctx, vf[0], [ctx.ref_to(me)])
    enum_ = ctx.int("ep.0", "u64").t; start = ctx.int("ep.5", "u64").t; length = ctx.int("ep.6", "u64").t; ect = ctx.int("ep.7", "u32").t
    pre = [T.le(start, n.t), T.lt(n.t, T.add(start, length)), T.lt(enum_, 1 << 24), T.lt(length, 1 << 16)]
    expect = T.add(T.add(T.mul(length, 1 << 40), T.mul(T.sub(n.t, start), 1 << 24)), enum_)
    S.prove(ctx, ob, "no_panic_inside_epoch", pre, T.not_(cond_of(panics(ps))))
    S.prove(ctx, ob, "ok_iff_epoch_field_and_target_match_the_epoch_record", pre, T.iff(is_ok(ps), T.and_(T.eq(e.t, expect), T.eq(ct.t, ect))), timeout_s=120)
    S.witness(ctx, ob, "reach_ok_mid_epoch", pre + [is_ok(ps)], T.gt(T.sub(n.t, start), 3))


def m4_limits(S):
    ob = "C03.m4"
    ctx = S.ctx()
    cnt = ctx.int("proposals_len", "usize"); lim = ctx.int("limit", "u64")
    ctx.env = ERR + [(E.rx(r"ProposalShortIdVec::len$|::len$"), lambda ex, c, a, d: cnt),
                     (E.rx(r"BlockView::data$|Block::proposals$"), E.opaque_call())]
    me = returns(S.run(ctx, "BlockProposalsLimitVerifier::new", [lim]))[0].value
    ps = S.run(ctx, "BlockProposalsLimitVerifier::verify", [ctx.ref_to(me), ctx.ref_to(OpaqueV("blk", "BlockView"))])
    S.prove(ctx, ob, "proposals_limit_met_exactly_is_accepted", [], T.and_(T.not_(cond_of(panics(ps))), T.iff(is_ok(ps), T.le(cnt.t, lim.t))))
    ctx = S.ctx()
    size = ctx.int("size", "usize"); lim = ctx.int("limit", "u64"); gen = ctx.bool("is_genesis")
    ctx.env = ERR + header_env(ctx, genesis=gen.t) + [(E.rx(r"serialized_size_without_uncle_proposals$"), lambda ex, c, a, d: size),
                                                     (E.rx(r"BlockView::data$"), E.opaque_call())]
    me = returns(S.run(ctx, "BlockBytesVerifier::new", [lim]))[0].value
    ps = S.run(ctx, "BlockBytesVerifier::verify", [ctx.ref_to(me), ctx.ref_to(OpaqueV("blk", "BlockView"))])
    S.prove(ctx, ob, "bytes_limit_met_exactly_is_accepted_genesis_exempt", [], T.and_(T.not_(cond_of(panics(ps))), T.iff(is_ok(ps), T.or_(gen.t, T.le(size.t, lim.t)))))


def m5_commit_window(S):
    """the propose/commit window the verifier walks (shared with C20.m2)"""
    n0 = len(S.results)
    _c20.m2_verifier_vs_finalize(S)
    for r in S.results[n0:]:
        r["obligation"] = "C03.m5"


def m6_median_time(S):
    """past-median time: the real default method HeaderFieldsProvider::block_median_time over a symbolic chain:
    the result is the upper median of the timestamps of the last k = min(count, height+1) blocks"""
    ob = "C03.m6"
    K = 5 if S.tier == "quick" else 9
    ctx = S.ctx(unwind=K + 2)
    h = ctx.int("height", "u64"); count = ctx.int("count", "usize")
    ts = [ctx.int(f"ts{i}", "u64") for i in range(K)]

    def get_fields(ex, callee, args, dty):
        i = len([e for e in ex.log if e[0] == "hf"])
        ex.log.append(("hf", callee, [nm_(ex, args[-1])], list(ex.pc)))
        if i >= K:
            from mir2smt.exec import UnwindExceeded
            raise UnwindExceeded("header lookups beyond the bound")   # proven infeasible under `count <= K` by S.run
        num = IntV(T.sub(h.t, i), "u64")
        return mk_option(True, AggV((OpaqueV(f"hash{i}", "Byte32"), num, AggV((IntV(0, "u64"),), "EpochNumberWithFraction"), ts[i], OpaqueV(f"parent_of_{i}", "Byte32")), "HeaderFields"), dty)

    def nm_(ex, v):
        v = deref(ex, v)
        return getattr(v, "name", "?")
    ctx.env = [(E.rx(r"HeaderFieldsProvider>::get_header_fields$"), get_fields),
               (E.rx(r"Byte32 as Clone>::clone$"), lambda ex, c, a, d: deref(ex, a[0]))]
    fn = [f for f in S.prog.by_short.get("block_median_time", []) if f.name.startswith("HeaderFieldsProvider::")]
    if len(fn) != 1:
        raise Inconclusive(f"block_median_time default method: {len(fn)} candidates")
    pre = [T.le(1, count.t), T.le(count.t, K), T.le(h.t, 1 << 40)]
    ps = S.run(ctx, fn[0], [ctx.ref_to(OpaqueV("dl", "Self")), ctx.ref_to(OpaqueV("start_hash", "Byte32")), count], assume=pre)
    S.prove(ctx, ob, "no_panic", pre, T.not_(cond_of(panics(ps))))
    k = T.imin(count.t, T.add(h.t, 1))
    got = merged(ps, as_int)
    # rank characterisation of the upper median among the first k timestamps (walk goes start, parent, grand-parent ...)
    less = 0; le = 0; member = False
    for i in range(K):
        inw = T.lt(i, k)
        less = T.add(less, T.ite(T.and_(inw, T.lt(ts[i].t, got)), 1, 0))
        le = T.add(le, T.ite(T.and_(inw, T.le(ts[i].t, got)), 1, 0))
        member = T.or_(member, T.and_(inw, T.eq(ts[i].t, got)))
    half = T.ediv(k, 2)
    S.prove(ctx, ob, "result_is_upper_median_of_last_k_timestamps", pre, T.and_(member, T.le(less, half), T.ge(le, T.add(half, 1))), timeout_s=300)
    # the walk follows parent hashes and stops at genesis
    for kk, p in enumerate(returns(ps)):
        hs = [e[2][0] for e in p.log if e[0] == "hf"]
        okflow = all(hs[i] == ("start_hash" if i == 0 else f"parent_of_{i-1}") for i in range(len(hs)))
        S.prove(ctx, ob, f"path{kk}_walk_follows_parent_hashes_for_k_blocks", pre + [p.cond()], T.and_(bool(okflow), T.eq(len(hs), k)))
    S.witness(ctx, ob, "reach_even_window_distinct_middles", pre, T.and_(T.eq(k, 4), T.lt(ts[0].t, ts[1].t), T.lt(ts[1].t, ts[2].t), T.lt(ts[2].t, ts[3].t), T.eq(got, ts[2].t)))


def m7_uncle_guards(S):
    """UnclesVerifier::verify, one uncle: the verdict is Ok exactly when every guard holds, with each numeric guard at its stated
    boundary (count <= max, same target, same epoch number, uncle.number < block.number, proposals <= limit); the hash-map based
    descent / double-inclusion answers enter as environment booleans"""
    ob = "C03.m7"
    ctx = S.ctx(unwind=4)
    ctx.uninterpreted_unknown_calls = True
    cnt = ctx.int("uncles_count", "usize"); maxu = ctx.int("max_uncles", "usize"); gen = ctx.bool("block_is_genesis")
    uct = ctx.int("uncle.compact", "u32"); ect = ctx.int("epoch.compact", "u32")
    uep = ctx.int("uncle.epoch", "u64"); een = ctx.int("epoch.number", "u64")
    un = ctx.int("uncle.number", "u64"); bn = ctx.int("block.number", "u64")
    plen = ctx.int("uncle.proposals_len", "usize"); plim = ctx.int("proposals_limit", "u64")
    B = {k: ctx.bool(k) for k in ("descendant", "double_inclusion", "proposals_hash_differs", "proposals_all_distinct", "pow_ok", "embedded_parent_found")}

    def it_next(ex, callee, args, dty):
        n = len([e for e in ex.log if e[0] == "next"])
        ex.log.append(("next", callee, [], list(ex.pc)))
        return mk_option(True, OpaqueV("uncle", "UncleBlockView"), dty) if n == 0 else mk_option(False, None, dty)

    ctx.env = ERR + [
        (E.rx(r"UncleBlockVec::len$"), lambda ex, c, a, d: cnt),
        (E.rx(r"BlockView::is_genesis$"), lambda ex, c, a, d: BoolV(gen.t)),
        (E.rx(r"Consensus::max_uncles_num$"), lambda ex, c, a, d: maxu),
        (E.rx(r"Consensus::max_block_proposals_limit$"), lambda ex, c, a, d: plim),
        (E.rx(r"UncleBlockVecViewIterator as Iterator>::next$"), it_next),
        (E.rx(r"UncleBlockView::compact_target$"), lambda ex, c, a, d: uct),
        (E.rx(r"EpochExt::compact_target$"), lambda ex, c, a, d: ect),
        (E.rx(r"UncleBlockView::epoch$"), lambda ex, c, a, d: AggV((uep,), "EpochNumberWithFraction")),
        (E.rx(r"EpochExt::number$"), lambda ex, c, a, d: een),
        (E.rx(r"UncleBlockView::number$"), lambda ex, c, a, d: un),
        (E.rx(r"BlockView::number$"), lambda ex, c, a, d: bn),
        (E.rx(r"HashMap::<Byte32, u64>::get"), lambda ex, c, a, d: mk_option(B["embedded_parent_found"].t, ex.ctx.ref_to(ctx.int("embedded_parent_number", "u64")), d)),
        (E.rx(r"HashMap::<Byte32, u64>::contains_key"), E.const_bool(False)),
        (E.rx(r"UncleProvider>::descendant$"), lambda ex, c, a, d: BoolV(B["descendant"].t)),
        (E.rx(r"UncleProvider>::double_inclusion$"), lambda ex, c, a, d: BoolV(B["double_inclusion"].t)),
        (E.rx(r"ProposalShortIdVec::len$"), lambda ex, c, a, d: plen),
        (E.rx(r"Byte32 as PartialEq>::ne$"), lambda ex, c, a, d: BoolV(B["proposals_hash_differs"].t)),
        (E.rx(r"ProposalShortIdVecIterator as Iterator>::all"), lambda ex, c, a, d: BoolV(B["proposals_all_distinct"].t)),
        (E.rx(r"PowEngine>::verify$"), lambda ex, c, a, d: BoolV(B["pow_ok"].t)),
    ]
    cands = [f for f in S.prog.by_short.get("verify", []) if "uncles_verifier.rs" in f.name and "{closure" not in f.name]
    if len(cands) != 1:
        raise Inconclusive(f"UnclesVerifier::verify: {len(cands)} candidates")
    ps = S.run(ctx, cands[0], [ctx.ref_to(OpaqueV("uv", "UnclesVerifier<'a, P>"))])
    pre = [T.le(cnt.t, 1), T.le(maxu.t, 1 << 31), T.lt(ctx.int("embedded_parent_number", "u64").t, (1 << 64) - 1)]
    S.prove(ctx, ob, "no_panic", pre, T.not_(cond_of(panics(ps))))
    ok = is_ok(ps)
    embedded = T.and_(B["embedded_parent_found"].t, T.eq(T.add(ctx.int("embedded_parent_number", "u64").t, 1), un.t))
    uen = T.emod(uep.t, 1 << 24)
    guards = T.and_(T.not_(gen.t), T.le(cnt.t, maxu.t), T.eq(uct.t, ect.t), T.eq(een.t, uen), T.lt(un.t, bn.t),
                    T.or_(embedded, B["descendant"].t), T.not_(B["double_inclusion"].t), T.le(plen.t, plim.t),
                    T.not_(B["proposals_hash_differs"].t), B["proposals_all_distinct"].t, B["pow_ok"].t)
    S.prove(ctx, ob, "no_uncles_is_always_ok", pre + [T.eq(cnt.t, 0)], ok)
    S.prove(ctx, ob, "one_uncle_ok_iff_every_guard_holds", pre + [T.eq(cnt.t, 1)], T.iff(ok, guards), timeout_s=120)
    S.witness(ctx, ob, "reach_ok_at_boundaries", pre + [T.eq(cnt.t, 1), ok], T.and_(T.eq(cnt.t, maxu.t), T.eq(T.add(un.t, 1), bn.t), T.eq(plen.t, plim.t)))


def _term_vars(v):
    """names of the symbols a logged value is made of"""
    out = set()
    if isinstance(v, IntV):
        out |= {x for x in T.free_vars(v.t)} if not T.is_const(v.t) else set()
    elif isinstance(v, AggV):
        for f in v.fields:
            out |= _term_vars(f)
    elif isinstance(v, EnumV):
        for _k, fs in v.payloads:
            for f in fs:
                out |= _term_vars(f)
    elif isinstance(v, OpaqueV):
        out.add(v.name)
    return out


def m8_header_verifier_composition(S):
    """HeaderVerifier::verify (the header check a peer's or miner's block passes first) accepts only if the PoW, number, epoch and
    timestamp parts all ran and accepted and the parent is known; the number/epoch parts are given the *parent's* fields"""
    from mir2smt import compose as C
    from mir2smt.srcinfo import field_index
    ob = "C03.m8"
    ctx = S.ctx()
    ctx.uninterpreted_unknown_calls = True
    known = ctx.bool("parent_known")
    parts = [("pow", r"PowVerifier::<.*>::verify$"), ("number", r"NumberVerifier::<.*>::verify$"), ("epoch", r"header_verifier::EpochVerifier::<.*>::verify$"),
             ("timestamp", r"TimestampVerifier::<.*>::verify$")]
    ctx.env = C.parts_env(parts) + [
        (E.rx(r"as HeaderFieldsProvider>::get_header_fields$"), lambda ex, c, a, d: (ex.log.append(("get_header_fields", c, [E.snapshot(ex, x) for x in a], list(ex.pc))), mk_option(known.t, OpaqueV("pf", "HeaderFields"), d))[1]),
        (E.rx(r"HeaderView::parent_hash$"), lambda ex, c, a, d: OpaqueV("parent_hash_of." + getattr(deref(ex, a[0]), "name", "?"), d)),
        (E.rx(r"unix_time_as_millis"), E.opaque_call()),
        (E.rx(r"Consensus::(pow_engine|median_time_block_count)$|as AsRef<.*>>::as_ref$"), E.opaque_call()),
    ] + ERR
    cands = [f for f in S.prog.funcs if f.kind == "fn" and f.short == "verify" and "header_verifier.rs" in f.name and f.params and "HeaderVerifier<" in f.params[0][1]]
    if len(cands) != 1:
        raise Inconclusive(f"HeaderVerifier::verify: {len(cands)} candidates")
    ps = S.run(ctx, cands[0], [ctx.ref_to(OpaqueV("hv", "HeaderVerifier")), ctx.ref_to(OpaqueV("hdr", "HeaderView"))])
    C.check(S, ctx, ob, "header_verifier", ps, [t for t, _ in parts], complete_when=[known.t])
    # an unknown parent is a rejection
    okc = T.or_(*[T.and_(p.cond(), C.ok_cond(p)) for p in returns(ps)])
    S.prove(ctx, ob, "header_verifier_unknown_parent_rejected", [T.not_(known.t)], T.not_(okc))
    # wiring: the parent looked up is the header's parent hash; number/epoch parts receive the parent's number / epoch
    fi = field_index("traits/src/header_provider.rs", "HeaderFields")
    for k, p in enumerate(returns(ps)):
        for e in p.log:
            if e[0] == "get_header_fields":
                arg = e[2][1]
                S.prove(ctx, ob, f"path{k}_parent_lookup_uses_parent_hash", [p.cond()], bool(getattr(arg, "name", "") == "parent_hash_of.hdr"))
        for tag, fld in (("number", "number"), ("epoch", "epoch")):
            for e in C.called(p, tag):
                vs = _term_vars(e[2][0])
                want = f"pf.{fi[fld]}"
                S.prove(ctx, ob, f"path{k}_{tag}_part_gets_parent_{fld}", [p.cond()], bool(any(v == want or v.startswith(want + ".") for v in vs)),
                        extra={"note": f"symbols reaching the part: {sorted(vs)}"})


def m9_block_verifier_composition(S):
    """BlockVerifier::verify (context-free block checks run before a block is stored): proposals limit, size, cellbase, duplicates and
    merkle roots are all checked"""
    from mir2smt import compose as C
    ob = "C03.m9"
    ctx = S.ctx()
    ctx.uninterpreted_unknown_calls = True
    parts = [("proposals_limit", r"BlockProposalsLimitVerifier::verify$"), ("bytes", r"BlockBytesVerifier::verify$"), ("cellbase", r"CellbaseVerifier::verify$"),
             ("duplicate", r"DuplicateVerifier::verify$"), ("merkle_root", r"MerkleRootVerifier::verify$")]
    limits = {}

    def cons(name):
        def h(ex, c, a, d):
            limits[name] = True
            return ex.ctx.int("cons." + name, "u64")
        return h
    ctx.env = C.parts_env(parts) + [(E.rx(r"Consensus::max_block_proposals_limit$"), cons("max_block_proposals_limit")), (E.rx(r"Consensus::max_block_bytes$"), cons("max_block_bytes"))] + ERR
    cands = [f for f in S.prog.funcs if f.kind == "fn" and f.short == "verify" and "block_verifier.rs" in f.name and f.params and re.match(r"^&(?:'\w+ )?BlockVerifier<", f.params[0][1])]
    if len(cands) != 1:
        raise Inconclusive(f"BlockVerifier::verify: {len(cands)} candidates")
    ps = S.run(ctx, cands[0], [ctx.ref_to(OpaqueV("bv", "BlockVerifier")), ctx.ref_to(OpaqueV("block", "BlockView"))])
    C.check(S, ctx, ob, "block_verifier", ps, [t for t, _ in parts], complete_when=[])
    # the limit verifiers are built from the consensus limits of the same name
    for k, p in enumerate(returns(ps)):
        for tag, want in (("proposals_limit", "cons.max_block_proposals_limit"), ("bytes", "cons.max_block_bytes")):
            for e in C.called(p, tag):
                vs = _term_vars(e[2][0])
                S.prove(ctx, ob, f"path{k}_{tag}_uses_consensus_limit", [p.cond()], bool(want in vs), extra={"note": f"symbols reaching the part: {sorted(vs)}"})


def m10_contextual_block_verifier_composition(S):
    """ContextualBlockVerifier::verify with no check switched off: epoch, uncles, two-phase commit, DAO header, reward, extension and the
    per-transaction verifier all run and accept; an unknown parent is a rejection; each Switch flag disables exactly its own part"""
    from mir2smt import compose as C
    ob = "C03.m10"
    ctx = S.ctx()
    ctx.uninterpreted_unknown_calls = True
    parts = [("epoch", r"contextual_block_verifier::EpochVerifier::<.*>::verify$|(?<!header_verifier::)EpochVerifier::<.*>::verify$"), ("uncles", r"UnclesVerifier::<.*>::verify$"),
             ("two_phase_commit", r"TwoPhaseCommitVerifier::<.*>::verify$"), ("dao_header", r"DaoHeaderVerifier::<.*>::verify$"), ("reward", r"RewardVerifier::<.*>::verify$"),
             ("extension", r"BlockExtensionVerifier::<.*>::verify$"), ("block_txs", r"BlockTxsVerifier::<.*>::verify$")]
    flags = {}

    def flag(name):
        def h(ex, c, a, d):
            b = ex.ctx.bool("switch." + name)
            flags[name] = b.t
            return b
        return h
    known = ctx.bool("parent_known"); genesis = ctx.bool("is_genesis"); epoch_known = ctx.bool("epoch_known")
    ctx.env = C.parts_env(parts) + [
        (E.rx(r"Switch::(disable_\w+)$"), lambda ex, c, a, d: flag(c.split("::")[-1])(ex, c, a, d)),
        (E.rx(r"ChainStore>::get_block_header$"), lambda ex, c, a, d: mk_option(known.t, OpaqueV("parent", "HeaderView"), d)),
        (E.rx(r"BlockView::is_genesis$"), lambda ex, c, a, d: genesis),
        (E.rx(r"Consensus::next_epoch_ext"), lambda ex, c, a, d: mk_option(epoch_known.t, OpaqueV("next_epoch", "NextBlockEpoch"), d)),
        (E.rx(r"::new$|::clone$|::to_owned$|genesis_epoch_ext$|NextBlockEpoch::epoch$|borrow_as_data_loader$|BlockView::(data|header)$|Block::header$|Header::raw$|RawHeader::parent_hash$|HeaderView::hash$"), E.opaque_call()),
    ] + ERR
    cands = [f for f in S.prog.funcs if f.kind == "fn" and f.short == "verify" and "contextual_block_verifier.rs" in f.name and f.params and "ContextualBlockVerifier<" in f.params[0][1]]
    if len(cands) != 1:
        raise Inconclusive(f"ContextualBlockVerifier::verify: {len(cands)} candidates")
    ps = S.run(ctx, cands[0], [ctx.ref_to(OpaqueV("cbv", "ContextualBlockVerifier")), OpaqueV("resolved", "&[Arc<ResolvedTransaction>]"), ctx.ref_to(OpaqueV("block", "BlockView"))])
    all_on = [T.not_(t) for t in flags.values()]
    if len(flags) < 6:
        raise Inconclusive(f"only {len(flags)} Switch flags consulted: {sorted(flags)}")
    C.check(S, ctx, ob, "contextual_block_verifier", ps, [t for t, _ in parts], assume=all_on, complete_when=[known.t, T.or_(genesis.t, epoch_known.t)])
    okc = T.or_(*[T.and_(p.cond(), C.ok_cond(p)) for p in returns(ps)])
    S.prove(ctx, ob, "unknown_parent_rejected", [T.not_(known.t)], T.not_(okc))
    S.prove(ctx, ob, "unknown_epoch_rejected", [T.not_(genesis.t), T.not_(epoch_known.t)], T.not_(okc))
    # each flag switches off only its own part: with exactly one flag set every other part still runs
    own = {"disable_epoch": "epoch", "disable_uncles": "uncles", "disable_two_phase_commit": "two_phase_commit", "disable_daoheader": "dao_header",
           "disable_reward": "reward", "disable_extension": "extension"}
    for fl, t in sorted(flags.items()):
        if fl not in own:
            continue
        others = [x for x, _ in parts if x != own[fl]]
        assume = [t] + [T.not_(u) for g, u in flags.items() if g != fl]
        bad = [T.and_(p.cond(), C.ok_cond(p)) for p in returns(ps) if [x for x in others if not C.called(p, x)]]
        S.prove(ctx, ob, f"{fl}_switches_off_only_its_own_part", assume, T.not_(T.or_(*bad)) if bad else True)


def reconcile_runs(S, n_blocks=3):
    """reconcile_main_chain on a fork of `n_blocks` attached blocks, for every split verified / unverified; yields
    (v, ctx, paths, syms)"""
    from mir2smt import compose as C
    from mir2smt.exec import ListV
    from mir2smt.srcinfo import struct_fields
    order = struct_fields("chain/src/utils/forkchanges.rs", "ForkChanges")
    f = [x for x in S.prog.funcs if x.kind == "fn" and x.short == "reconcile_main_chain" and "chain/src/verify.rs" in x.name]
    if len(f) != 1:
        raise Inconclusive(f"reconcile_main_chain: {len(f)} candidates")
    for v in range(n_blocks + 1):
        ctx = S.ctx(unwind=n_blocks + 2)
        ctx.uninterpreted_unknown_calls = True
        ctx.max_paths = 20000
        blocks = [OpaqueV(f"b{k}", "BlockView") for k in range(n_blocks)]
        exts = [OpaqueV(f"ext{k}", "BlockExt") for k in range(v, n_blocks)]
        vals = []
        for fld in order:
            if fld == "attached_blocks":
                vals.append(ListV(tuple(blocks), "VecDeque<BlockView>"))
            elif fld == "dirty_exts":
                vals.append(ListV(tuple(exts), "VecDeque<BlockExt>"))
            else:
                vals.append(OpaqueV("fork." + fld, "?"))
        fork = AggV(tuple(vals), "ForkChanges")
        disable_all = ctx.bool("switch.disable_all")

        def named(ex, x):
            x = deref(ex, x)
            return getattr(x, "name", None) or type(x).__name__

        def op(tag):
            def h(ex, c, a, d):
                k = len([e for e in ex.log if e[0] == tag])
                ex.log.append((tag, c, [named(ex, x) for x in a], list(ex.pc)))
                okb = ex.ctx.bool(f"{tag}_ok.{k}")
                rt = C._result_types(d)
                val = UNIT if rt is None or rt[0] == "()" else ex.ctx.fresh_of_type(f"{tag}_val.{k}", rt[0])
                return EnumV(T.ite(okb.t, 0, 1), ((0, (val,)), (1, (OpaqueV(f"{tag}_err.{k}", rt[1] if rt else "Error"),))), d)
            return h

        def plain(tag, ret=None):
            def h(ex, c, a, d):
                ex.log.append((tag, c, [named(ex, x) for x in a], list(ex.pc)))
                return ret(ex, c, a, d) if ret else E.opaque_call()(ex, c, a, d)
            return h
        ctx.env = list(E.LOGGING_OFF) + [
            (E.rx(r"Switch::disable_all$"), lambda ex, c, a, d: disable_all),
            (E.rx(r"Switch::disable_script$"), lambda ex, c, a, d: ex.ctx.bool("switch.disable_script")),
            (E.rx(r"BlockView::header$"), lambda ex, c, a, d: OpaqueV("header_of." + named(ex, a[0]), d)),
            (E.rx(r"HeaderView::number$"), lambda ex, c, a, d: ex.ctx.int("number_of." + named(ex, a[0]), "u64")),
            (E.rx(r"HeaderView::hash$|BlockView::hash$"), lambda ex, c, a, d: OpaqueV("hash_of." + named(ex, a[0]), d)),
            (E.rx(r"leaf_index_to_mmr_size$"), lambda ex, c, a, d: (ex.log.append(("mmr_size_of", c, [deref(ex, a[0])], list(ex.pc))), ex.ctx.int("mmr_size", "u64"))[1]),
            (E.rx(r"MMR::<.*>::new$"), plain("mmr_new", lambda ex, c, a, d: OpaqueV("mmr", d))),
            (E.rx(r"impl BlockView>::digest$"), lambda ex, c, a, d: OpaqueV("digest_of." + named(ex, a[0]), d)),
            (E.rx(r"MMR::<.*>::push$"), op("push")),
            (E.rx(r"MMR::<.*>::commit$"), op("mmr_commit")),
            (E.rx(r"StoreTransaction::attach_block$"), op("attach_block")),
            (E.rx(r"^attach_block_cell$|::attach_block_cell$"), op("attach_cells")),
            (E.rx(r"::resolve_block_transactions::<"), op("resolve")),
            (E.rx(r"ContextualBlockVerifier::<.*>::new$"), plain("verifier_new", lambda ex, c, a, d: OpaqueV("verifier", d))),
            (E.rx(r"ContextualBlockVerifier::<.*>::verify$"), op("verify")),
            (E.rx(r"::insert_ok_ext$"), op("ok_ext")),
            (E.rx(r"::insert_failure_ext$"), op("failure_ext")),
            (E.rx(r"::print_error$|::monitor_block_txs_verified$|Instant::(now|elapsed)$"), E.opaque_call()),
            (E.rx(r"BlockExt as Clone>::clone$"), lambda ex, c, a, d: deref(ex, a[0])),
        ] + E.LIST_ADAPTORS + ERR
        me = ctx.ref_to(OpaqueV("proc", "ConsumeUnverifiedBlockProcessor"))
        ps = S.run(ctx, f[0], [me, OpaqueV("txn", "Arc<StoreTransaction>"), ctx.ref_to(fork), OpaqueV("switch", "Switch")])
        yield v, ctx, ps, {"disable_all": disable_all, "blocks": [b.name for b in blocks]}


def m11_reconcile_main_chain(S, ob="C03.m11", n_blocks=3):
    """reconcile_main_chain (the loop that makes a branch canonical), forks of three attached blocks with every verified/unverified split:
    a block is attached (index, cells, chain-root MMR leaf) only after the contextual verifier accepted it (unless all checks are switched
    off); after the first failure nothing further is attached, every remaining block is marked failed and the call returns an error
    without committing the MMR; on success the MMR is opened at the size of the first attached block's parent chain and receives the
    digest of every attached block in chain order before it is committed"""
    for v, ctx, ps, sy in reconcile_runs(S, n_blocks):
        names = sy["blocks"]
        da = sy["disable_all"].t
        first_no = ctx.int("number_of.header_of." + names[0], "u64").t
        PRE = [T.gt(first_no, 0)]        # an attached block is never the genesis block (the code computes number - 1)
        S.prove(ctx, ob, f"v{v}_no_panic", PRE, T.not_(cond_of(panics(ps))))
        rs = returns(ps)
        okret = lambda p: T.eq(p.value.disc, 0)

        def seq(p, tag):
            return [(e[2], e[3]) for e in p.log if e[0] == tag]
        bad_order, bad_verify, bad_after_fail, bad_commit, bad_size = [], [], [], [], []
        n_ok_paths = 0
        for p in rs:
            pushes = [a[-1] for a, _ in seq(p, "push")]
            attaches = [a[-1] for a, _ in seq(p, "attach_block")]
            cells = [a[-1] for a, _ in seq(p, "attach_cells")]
            verifies = [a[-1] for a, _ in seq(p, "verify")]
            commits = seq(p, "mmr_commit")
            want = ["digest_of." + b for b in names]
            # G1: on an accepting path every attached block's digest was pushed, in chain order; on any path the pushes are a prefix
            if pushes != want[:len(pushes)] or attaches != names[:len(attaches)] or cells != names[:len(cells)]:
                bad_order.append(p.cond())
            if pushes != want or attaches != names or cells != names:
                bad_order.append(T.and_(p.cond(), okret(p)))
            # G2: an unverified block is attached only after its own verification ran (and, by the path condition, accepted)
            for k, b in enumerate(names):
                if k >= v and b in attaches and b not in verifies:
                    bad_verify.append(T.and_(p.cond(), T.not_(da)))
            # G5: MMR committed iff the call accepts
            if bool(commits) != True:
                bad_commit.append(T.and_(p.cond(), okret(p)))
            if commits:
                bad_commit.append(T.and_(p.cond(), T.not_(okret(p)), ctx.bool("mmr_commit_ok.0").t))
            for e in p.log:
                if e[0] == "mmr_new" and "mmr_size" not in str(e[2]):
                    pass
        S.prove(ctx, ob, f"v{v}_attached_blocks_and_mmr_leaves_follow_chain_order", PRE, T.not_(T.or_(*bad_order)) if bad_order else True)
        S.prove(ctx, ob, f"v{v}_unverified_block_attached_only_after_its_verification", PRE, T.not_(T.or_(*bad_verify)) if bad_verify else True)
        S.prove(ctx, ob, f"v{v}_mmr_committed_iff_accepted", PRE, T.not_(T.or_(*bad_commit)) if bad_commit else True)
        # verdict: accepts iff every storage step and every verification of an unverified block accepted
        oks = []
        for tag in ("push", "attach_block", "attach_cells", "resolve", "verify", "ok_ext", "failure_ext", "mmr_commit"):
            n = max([len(seq(p, tag)) for p in ps] + [0])
            oks += [ctx.bool(f"{tag}_ok.{k}").t for k in range(n)]
        accept = T.or_(*[T.and_(p.cond(), okret(p)) for p in rs])
        S.prove(ctx, ob, f"v{v}_accepts_when_every_step_accepts", PRE + [T.and_(*[o for o in oks if "failure_ext" not in str(o)])], accept)
        # G3: a rejected verification/resolution of block k: no later attach, failure ext for k.., Err
        for k in range(v, n_blocks):
            j = k - v          # index of the verification among the unverified blocks
            for tag in ("verify", "resolve"):
                failed = T.not_(ctx.bool(f"{tag}_ok.{j}").t)
                bad = []
                for p in rs:
                    tags_blocks = [(e[0], e[2][-1] if e[0] in ("attach_block", "verify", "resolve") else (e[2][2] if e[0] == "failure_ext" and len(e[2]) > 2 else None)) for e in p.log]
                    ran = [b for t_, b in tags_blocks if t_ == tag]
                    if len(ran) <= j:
                        continue       # this path never reached that step
                    attached_later = [b for t_, b in tags_blocks if t_ == "attach_block" and b in names[k:]]
                    nfail = len([1 for t_, _b in tags_blocks if t_ == "failure_ext"])
                    if attached_later:
                        bad.append(T.and_(p.cond(), failed, T.not_(da)))
                    bad.append(T.and_(p.cond(), failed, T.not_(da), okret(p)))
                    if nfail != n_blocks - k:
                        bad.append(T.and_(p.cond(), failed, T.not_(da), T.and_(*[ctx.bool(f"failure_ext_ok.{q}").t for q in range(n_blocks)])))
                S.prove(ctx, ob, f"v{v}_{tag}_failure_of_block{k}_refuses_the_rest", PRE, T.not_(T.or_(*bad)) if bad else True)
        # G4: the MMR is opened at leaf_index_to_mmr_size(number(first attached) - 1) and handed to the verifier
        for p in rs[:1]:
            szs = [e for e in p.log if e[0] == "mmr_size_of"]
            news = [e for e in p.log if e[0] == "mmr_new"]
            S.prove(ctx, ob, f"v{v}_mmr_opened_at_parent_chain_size", PRE,
                    T.and_(bool(len(szs) == 1 and len(news) == 1), T.eq(szs[0][2][0].t, T.sub(first_no, 1)) if szs else False))
        vn = [e for p in rs for e in p.log if e[0] == "verifier_new"]
        S.prove(ctx, ob, f"v{v}_verifier_reads_the_same_mmr", [], bool(all(e[2][-1] == "mmr" for e in vn)), extra={"note": str(vn[:1])})
        S.witness(ctx, ob, f"v{v}_reach_accept", PRE, accept)


OBLIGATIONS = [m1_number_epoch, m2_timestamp, m3_contextual_epoch, m4_limits, m5_commit_window, m6_median_time, m7_uncle_guards, m8_header_verifier_composition, m9_block_verifier_composition, m10_contextual_block_verifier_composition, m11_reconcile_main_chain]

ENGINE = "M"
LEVEL = "other"
EXPLANATION = ("Rule kernels of block acceptance (number, epoch continuity, timestamp window, epoch/target match, proposal and size limits, commit window) symbolically "
               "executed from MIR with header accessors and store lookups as environment symbols; each verdict is decided equal to the stated rule for all field values.")
BOUNDS = {"values": "all u64/u32 field values", "window walk": "window length <= 6 (quick) / 14 (thorough)", "median": "median_block_count <= 5 (quick) / 9 (thorough); consensus uses 37",
          "outside": "whole-block iff, uncle descent and double inclusion (HashMap/store), merkle roots, cellbase shape, extension/MMR, proof of work hash, refusal-as-a-whole (RocksDB transaction), median time for counts above the bound"}
ASSUMPTIONS = ["header/block accessors return the symbolic field values (molecule decoding is C15/C16)", "block_median_time is an environment symbol (its value is any u64)", "error conversions are opaque"]
TRUSTED = []
LEVEL_TEXT = "Each listed rule kernel is decided by SMT over the real MIR for all inputs; C03 is claimed for these kernels only, not for the pipeline-level iff."
LEVEL_NOTE = "Partial claim (rule kernels). Uncles, merkle roots, cellbase, PoW hash, DB transaction semantics are outside."
TECHNIQUE = "symbolic execution of rustc MIR -> integer-theory SMT (cvc5 + z3) with environment symbols"


def m12_chain_service_admission(S):
    """`ChainService::asynchronous_process_block` / `non_contextual_verify` (chain/src/chain_service.rs) -- the door every block from a peer, the miner RPC or the importer passes
    before it is stored: a block of height >= 1 is written to the store and handed to the orphan broker only after BlockVerifier AND NonContextualBlockTxsVerifier both accepted it
    (or the caller's Switch disables the non-contextual checks); a rejected block is marked BLOCK_INVALID under its own hash and the error goes back to the submitter, nothing is
    stored; a store failure forgets the status and reports the error; a height-0 block is never stored: a foreign genesis is marked invalid and refused, the node's own genesis
    answers 'not new'."""
    from mir2smt.session_extra import extra_session
    ob = "C03.m12"
    S2 = extra_session(S, ["ckb-constant", "ckb-occupied-capacity-core", "ckb-types", "ckb-chain"])
    try:
        _m12_body(S2, ob)
    finally:
        S2.finish()


def _m12_body(S, ob):
    imp = "chain/src/chain_service.rs"
    f = [x for x in S.prog.funcs if x.kind == "fn" and x.short == "asynchronous_process_block" and imp in x.name and "{closure" not in x.name]
    if len(f) != 1:
        raise Inconclusive(f"asynchronous_process_block: {len(f)} candidates")
    ctx = S.ctx()
    ctx.uninterpreted_unknown_calls = True
    ctx.max_paths = 2000
    N = ctx.int("block_number", "u64")
    has_sw, dnc, foreign = ctx.bool("caller_gave_a_switch"), ctx.bool("switch_disables_non_contextual"), ctx.bool("hash_differs_from_own_genesis")
    ok1, ok2, ok3 = ctx.bool("block_verifier_accepts"), ctx.bool("non_contextual_txs_verifier_accepts"), ctx.bool("store_write_succeeds")

    def nmv(ex, v):
        v = deref(ex, v)
        if isinstance(v, EnumV) and isinstance(v.disc, int):
            return ("Ok(" if v.disc == 0 else "Err(") + ",".join(nmv(ex, x) for x in (v.payload(v.disc) or ())) + ")"
        if isinstance(v, BoolV):
            return str(v.t)
        return getattr(v, "name", None) or type(v).__name__

    def rec(tag, ret=None):
        def h(ex, c, a, d):
            ex.log.append(("c03", tag, [nmv(ex, x) for x in a[1:]], list(ex.pc)))
            return ret(ex, d) if ret else UNIT
        return h
    ctx.env = list(E.LOGGING_OFF) + [
        (E.rx(r"LonelyBlock::block$"), lambda ex, c, a, d: ex.ctx.ref_to(OpaqueV("block", "BlockView"))),
        (E.rx(r"BlockView::number$"), lambda ex, c, a, d: N),
        (E.rx(r"BlockView::hash$"), lambda ex, c, a, d: OpaqueV("block_hash", d)),
        (E.rx(r"Shared::genesis_hash$"), lambda ex, c, a, d: OpaqueV("genesis_hash", d)),
        (E.rx(r"Byte32 as PartialEq>::ne$"), lambda ex, c, a, d: foreign),
        (E.rx(r"LonelyBlock::switch$"), lambda ex, c, a, d: mk_option(has_sw.t, OpaqueV("switch", "Switch"), d)),
        (E.rx(r"Switch::disable_non_contextual$"), lambda ex, c, a, d: dnc),
        (E.rx(r"Shared::consensus$"), lambda ex, c, a, d: ex.ctx.ref_to(OpaqueV("consensus", "Consensus"))),
        (E.rx(r"BlockVerifier::<?.*>?::new$|BlockVerifier::new$"), lambda ex, c, a, d: OpaqueV("block_verifier(" + nmv(ex, a[0]) + ")", d)),
        (E.rx(r"NonContextualBlockTxsVerifier::<?.*>?::new$|NonContextualBlockTxsVerifier::new$"), lambda ex, c, a, d: OpaqueV("txs_verifier(" + nmv(ex, a[0]) + ")", d)),
        (E.rx(r"BlockVerifier.* as Verifier>::verify$|BlockVerifier::verify$"), rec("block_verifier", lambda ex, d: mk_result(ok1.t, UNIT, OpaqueV("block_error", "Error"), d))),
        (E.rx(r"NonContextualBlockTxsVerifier(::<.*>)?::verify$"), rec("txs_verifier", lambda ex, d: mk_result(ok2.t, OpaqueV("cycles_fees", "?"), OpaqueV("txs_error", "Error"), d))),
        (E.rx(r"ChainService::insert_block$"), rec("insert_block", lambda ex, d: mk_result(ok3.t, UNIT, OpaqueV("store_error", "Error"), d))),
        (E.rx(r"Shared::insert_block_status$"), rec("mark_status")),
        (E.rx(r"Shared::block_status_map$"), lambda ex, c, a, d: ex.ctx.ref_to(OpaqueV("status_map", "DashMap"))),
        (E.rx(r"DashMap::<.*>::remove(::<.*>)?$"), rec("forget_status", lambda ex, d: mk_option(False, None, d))),
        (E.rx(r"LonelyBlock::execute_callback$"), lambda ex, c, a, d: (ex.log.append(("c03", "callback", [nmv(ex, a[1])], list(ex.pc))), UNIT)[1]),
        (E.rx(r"OrphanBroker::process_lonely_block$"), rec("to_orphan_broker")),
        (E.rx(r"InternalErrorKind::other|as From<.*>>::from$|as Into<.*>>::into$"), lambda ex, c, a, d: OpaqueV("system_error", d)),
    ]
    ps = S.run(ctx, f[0], [ctx.ref_to(OpaqueV("service", "ChainService")), OpaqueV("lonely_block", "LonelyBlock")])
    S.prove(ctx, ob, "no_panic", [], T.not_(cond_of(panics(ps))))
    rs = returns(ps)

    def when(pred):
        return T.or_(*[p.cond() for p in rs if pred([(e[1], e[2]) for e in p.log if e[0] == "c03"])])
    tags = lambda evs: [t for t, _ in evs]
    high = T.ge(N.t, 1)
    skipped = T.and_(has_sw.t, dnc.t)
    verified = T.or_(skipped, T.and_(ok1.t, ok2.t))
    S.prove(ctx, ob, "stored_iff_height_at_least_one_and_non_contextual_verification_accepted_or_was_disabled", [], T.iff(when(lambda evs: "insert_block" in tags(evs)), T.and_(high, verified)))
    S.prove(ctx, ob, "handed_to_the_orphan_broker_iff_also_the_store_write_succeeded", [], T.iff(when(lambda evs: "to_orphan_broker" in tags(evs)), T.and_(high, verified, ok3.t)))
    S.prove(ctx, ob, "both_non_contextual_verifiers_run_unless_disabled_block_verifier_first", [], T.and_(
        T.iff(when(lambda evs: "block_verifier" in tags(evs)), T.and_(high, T.not_(skipped))),
        T.iff(when(lambda evs: "txs_verifier" in tags(evs)), T.and_(high, T.not_(skipped), ok1.t)),
        bool(all(tags(evs).index("block_verifier") < tags(evs).index("txs_verifier") for evs in [[(e[1], e[2]) for e in p.log if e[0] == "c03"] for p in rs] if "txs_verifier" in tags(evs)))))
    rejected = lambda evs: ("mark_status" in tags(evs)) and any(t == "mark_status" and a_[0] == "block_hash" and "INVALID" in a_[1].upper() for t, a_ in evs) and any(t == "callback" and a_[0].startswith("Err(") for t, a_ in evs)
    S.prove(ctx, ob, "a_rejected_block_is_marked_invalid_under_its_own_hash_and_the_error_is_reported", [], T.iff(when(rejected), T.or_(T.and_(high, T.not_(verified)), T.and_(T.not_(high), foreign.t))))
    S.prove(ctx, ob, "the_reported_error_is_the_verifiers_own", [], bool(all(any(t == "callback" and a_[0] in ("Err(block_error)", "Err(txs_error)") for t, a_ in evs) for evs in [[(e[1], e[2]) for e in p.log if e[0] == "c03"] for p in rs] if ("block_verifier" in tags(evs) and "insert_block" not in tags(evs)))))
    S.prove(ctx, ob, "a_store_failure_forgets_the_status_reports_the_error_and_stops", [high, verified, T.not_(ok3.t)], when(lambda evs: "forget_status" in tags(evs) and ("callback", ["Err(store_error)"]) in evs and "to_orphan_broker" not in tags(evs)))
    S.prove(ctx, ob, "own_genesis_answers_not_new_and_is_never_stored", [T.not_(high), T.not_(foreign.t)], when(lambda evs: evs == [("callback", ["Ok(False)"])]))
    S.witness(ctx, ob, "reach_stored_after_verification", [], T.and_(when(lambda evs: "to_orphan_broker" in tags(evs)), T.not_(skipped)))


OBLIGATIONS = OBLIGATIONS + [m12_chain_service_admission]
