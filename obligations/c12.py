"""C12 — after a reorganisation the pool agrees with the new chain (engine M, partial: the reorg-processing step of the pool).

Claimed (partial): the functions the pool runs when the tip changes, executed from their MIR with the pool map / proposal view / callbacks as environment symbols:

 m1  `_update_tx_pool_for_reorg`: the pool first adopts the NEW snapshot, then removes what the attached blocks committed (with the detached headers), then handles the
     proposal ids that left the window, then -- only on a block-assembling node -- re-stages entries against the new snapshot's proposal view: a Gap entry becomes Proposed iff
     its id is proposed there, a Pending entry becomes Proposed iff proposed, else Gap iff in the gap, and nothing else moves; expiry and the size limit run last;
 m2  `remove_committed_txs` / `remove_committed_tx`: for EVERY attached transaction the entry with its id is removed and the entries conflicting with it (inputs spent, cell deps
     consumed) are resolved -- whether or not the transaction itself was pooled -- every conflicting entry is reported as rejected; entries depending on a detached header are
     resolved once, iff some block was detached, against exactly that header set;
 m3  `update_tx_pool_for_reorg` (async fn): detached transactions are collected in block order (oldest block first, cellbases skipped), `retain` = detached minus attached,
     the detached header set holds the hash of every detached block, the pool update runs before the retained transactions are re-added, and they are re-added in that order
     (parents committed in an earlier block come before their children).

Outside: the hash containers and multi-index map themselves (pool_map.rs: C11 covers entry-level kernels), `readd_detached_tx`'s resolution against the store, the asynchronous
service loop and notify ordering, orphan/verify queues, fee estimator.
"""
import os
import re
from mir2smt.ob import *
from mir2smt import terms as T
from mir2smt.exec import StrV, OpaqueV, IntV, BoolV, AggV, EnumV, RefV, ListV, UNIT, Stop, mk_option, mk_result
from mir2smt import envlib as E
from mir2smt.builtins import deref

CRATES = ["ckb-constant", "ckb-occupied-capacity-core", "ckb-types", "ckb-proposal-table", "ckb-snapshot", "ckb-tx-pool"]


def nmv(ex, v):
    v = deref(ex, v) if ex is not None else v
    if isinstance(v, ListV):
        return "[" + ",".join(nmv(ex, x) for x in v.items) + "]"
    if isinstance(v, AggV) and isinstance(v.ty, str) and v.ty.startswith("ListIter"):
        return "[" + ",".join(nmv(ex, x) for x in E._rest(ex, v)) + "]"
    if isinstance(v, AggV):
        return "(" + ",".join(nmv(ex, x) for x in v.fields) + ")"
    if isinstance(v, IntV):
        return v.t[2] if isinstance(v.t, tuple) and v.t[0] == "var" else str(v.t)
    if isinstance(v, BoolV):
        return v.t[2] if isinstance(v.t, tuple) and v.t[0] == "var" else str(v.t)
    return getattr(v, "name", None) or type(v).__name__


def _status_variants():
    src = open(os.path.join(os.environ.get("VERIF_REPO", "/repo"), "tx-pool/src/component/pool_map.rs")).read()
    m = re.search(r"pub enum Status\s*\{([^}]*)\}", src)
    return [v.strip() for v in re.sub(r"//[^\n]*", "", m.group(1)).split(",") if v.strip()]


def _find(S, pred, what):
    f = [x for x in S.prog.funcs if x.kind == "fn" and pred(x)]
    if len(f) != 1:
        raise Inconclusive(f"{what}: {len(f)} candidates")
    return f[0]


def m1_reorg_step(S):
    ob = "C12.m1"
    variants = _status_variants()
    f = _find(S, lambda x: x.name == "_update_tx_pool_for_reorg" and len(x.params) == 7, "_update_tx_pool_for_reorg")
    ctx = S.ctx(unwind=10)
    ctx.uninterpreted_unknown_calls = True
    ctx.max_paths = 6000
    mine = ctx.bool("mine_mode")
    by_status = {"Gap": ["G0"], "Pending": ["P0", "P1"], "Proposed": ["R0"]}
    log = []

    def ev(tag, *names):
        def h(ex, c, a, d):
            log.append((tag, tuple(nmv(ex, a[i]) for i in names), tuple(map(str, ex.pc)), list(ex.pc)))
            ex.log.append(("c12", tag, [], list(ex.pc)))
            return UNIT
        return h

    def stage(tag):
        def h(ex, c, a, d):
            i = nmv(ex, a[1])
            log.append((tag, (i,), tuple(map(str, ex.pc)), list(ex.pc)))
            ex.log.append(("c12", tag, [], list(ex.pc)))
            return mk_result(ex.ctx.bool(f"{tag}_ok_{re.sub(r'[^A-Za-z0-9]', '_', i)}").t, BoolV(True), OpaqueV("reject", "Reject"), d)
        return h

    def get_by_status(ex, c, a, d):
        s = deref(ex, a[1])
        if not isinstance(s, EnumV) or not isinstance(s.disc, int):
            raise Stop(f"status argument is not a concrete variant: {s}")
        log.append(("scan", (variants[s.disc],), tuple(map(str, ex.pc)), list(ex.pc)))
        ex.log.append(("c12", "scan", [], list(ex.pc)))
        return ListV(tuple(ex.ctx.ref_to(OpaqueV(n, "PoolEntry")) for n in by_status.get(variants[s.disc], [])), "Vec<&PoolEntry>")

    def short_id(ex, c, a, d):
        n = nmv(ex, a[0])
        return OpaqueV("id(" + n.split(".")[0] + ")", d)

    def contains(kind):
        def h(ex, c, a, d):
            v, i = nmv(ex, a[0]), nmv(ex, a[1])
            log.append(("view", (kind, v, i), tuple(map(str, ex.pc)), list(ex.pc)))
            return ex.ctx.bool(f"{kind}_{re.sub(r'[^A-Za-z0-9]', '_', i)}")
        return h
    ctx.env = list(E.LOGGING_OFF) + [
        (E.rx(r"TxPool::remove_committed_txs::<"), ev("remove_committed", 1, 3)),
        (E.rx(r"TxPool::remove_by_detached_proposal::<"), ev("detached_proposals", 1)),
        (E.rx(r"TxPool::proposed_rtx$"), stage("proposed_rtx")),
        (E.rx(r"TxPool::gap_rtx$"), stage("gap_rtx")),
        (E.rx(r"TxPool::remove_expired$"), ev("remove_expired")),
        (E.rx(r"TxPool::limit_size$"), lambda ex, c, a, d: (log.append(("limit_size", (), tuple(map(str, ex.pc)), list(ex.pc))), ex.log.append(("c12", "limit_size", [], list(ex.pc))), mk_result(True, UNIT, OpaqueV("reject", "Reject"), d))[2]),
        (E.rx(r"Callbacks::call_(reject|proposed|pending)$"), lambda ex, c, a, d: UNIT),
        (E.rx(r"MultiIndexPoolEntryMap::get_by_status::<"), get_by_status),
        (E.rx(r"TxEntry::proposal_short_id$"), short_id),
        (E.rx(r"Snapshot::proposals$"), lambda ex, c, a, d: ex.ctx.ref_to(OpaqueV("view_of(" + nmv(ex, a[0]) + ")", "ProposalView"))),
        (E.rx(r"ProposalView::contains_proposed$"), contains("proposed")),
        (E.rx(r"ProposalView::contains_gap$"), contains("gap")),
        (E.rx(r"LinkedHashSet::<.*>::iter$|HashSet::<.*>::iter$"), lambda ex, c, a, d: OpaqueV("iter(" + nmv(ex, a[0]) + ")", d)),
        (E.rx(r"Arc<.*Snapshot> as Clone>::clone$"), lambda ex, c, a, d: OpaqueV(nmv(ex, a[0]), d)),
        (E.rx(r"Arc<.*Snapshot> as Deref>::deref$"), lambda ex, c, a, d: ex.ctx.ref_to(OpaqueV(nmv(ex, a[0]), "Snapshot"))),
        (E.rx(r"as Clone>::clone$"), lambda ex, c, a, d: (OpaqueV(nmv(ex, a[0]), d) if isinstance(deref(ex, a[0]), OpaqueV) else deref(ex, a[0]))),
        (E.rx(r"TxEntry::transaction$|TransactionView::hash$"), E.opaque_call()),
    ] + list(E.LIST_ADAPTORS)
    pool = OpaqueV("pool", "TxPool")
    args = [ctx.ref_to(pool), ctx.ref_to(OpaqueV("attached", "LinkedHashSet")), ctx.ref_to(OpaqueV("detached_headers", "HashSet")), OpaqueV("detached_ids", "HashSet"),
            OpaqueV("new_snapshot", "Arc<Snapshot>"), ctx.ref_to(OpaqueV("callbacks", "Callbacks")), mine]
    ps = S.run(ctx, f, args)
    S.prove(ctx, ob, "no_panic", [], T.not_(cond_of(panics(ps))))
    # --- order of the phases on every path
    full = [[e[1] for e in p.log if e[0] == "c12"] for p in returns(ps)]
    rank = {"remove_committed": 0, "detached_proposals": 1, "scan": 2, "proposed_rtx": 3, "gap_rtx": 4, "remove_expired": 5, "limit_size": 6}
    ordered = all(v and all(rank[x] <= rank[y] for x, y in zip(v, v[1:])) and v[0] == "remove_committed" and v[1:2] == ["detached_proposals"] and v[-2:] == ["remove_expired", "limit_size"] for v in full)
    S.prove(ctx, ob, "committed_first_then_detached_proposals_then_restaging_then_expiry_and_limit", [], bool(full and ordered), extra={"note": str([v for v in full if not (v and all(rank[x] <= rank[y] for x, y in zip(v, v[1:])))][:2])[:600]})
    rc = {n for t, n, _, _ in log if t == "remove_committed"}
    S.prove(ctx, ob, "committed_removal_gets_the_attached_set_and_the_detached_headers", [], bool(rc == {("iter(attached)", "detached_headers")}), extra={"note": str(rc)})
    dp = {n for t, n, _, _ in log if t == "detached_proposals"}
    S.prove(ctx, ob, "detached_proposal_handling_gets_the_ids_that_left_the_window", [], bool(dp == {("iter(detached_ids)",)}), extra={"note": str(dp)})
    views = {n[1] for t, n, _, _ in log if t == "view"}
    S.prove(ctx, ob, "stages_are_decided_against_the_new_snapshots_proposal_view", [], bool(views == {"view_of(new_snapshot)"}), extra={"note": str(views)})
    # the pool's own snapshot is the new one on every returning path
    from mir2smt.srcinfo import field_index
    from mir2smt.exec import post_value
    fi = field_index("tx-pool/src/pool.rs", "TxPool")
    snaps = set()
    for p in returns(ps):
        post = post_value(ctx, p, args[0])
        over = getattr(post, "over", None)
        snaps.add(nmv(None, over[fi["snapshot"]]) if isinstance(over, dict) and fi["snapshot"] in over else str(post)[:80])
    S.prove(ctx, ob, "the_pool_resolves_against_the_new_snapshot_afterwards", [], bool(snaps == {"new_snapshot"}), extra={"note": str(snaps)})
    # --- who moves where
    def when(tag, i):
        return T.or_(*[T.and_(*pc) for t, n, _, pc in log if t == tag and n == (i,)]) if any(t == tag and n == (i,) for t, n, _, _ in log) else False
    b = lambda kind, n: ctx.bool(f"{kind}_id_{n}_").t
    goals = [T.iff(when("proposed_rtx", "id(G0)"), T.and_(mine.t, b("proposed", "G0"))),
             T.not_(when("gap_rtx", "id(G0)")),
             T.not_(when("proposed_rtx", "id(R0)")), T.not_(when("gap_rtx", "id(R0)"))]
    prior_ok = []
    for n in ("P0", "P1"):
        goals.append(T.implies(_all_earlier_ok(ctx, n), T.iff(when("proposed_rtx", f"id({n})"), T.and_(mine.t, b("proposed", n)))))
        goals.append(T.implies(_all_earlier_ok(ctx, n), T.iff(when("gap_rtx", f"id({n})"), T.and_(mine.t, T.not_(b("proposed", n)), b("gap", n)))))
    S.prove(ctx, ob, "gap_entry_is_proposed_iff_proposed_in_the_new_window_pending_entry_proposed_or_gap_accordingly", [], T.and_(*goals))
    S.prove(ctx, ob, "nothing_is_restaged_on_a_node_that_does_not_assemble_blocks", [T.not_(mine.t)], T.not_(T.or_(*[T.and_(*pc) for t, _, _, pc in log if t in ("proposed_rtx", "gap_rtx", "scan")])) if any(t in ("proposed_rtx", "gap_rtx", "scan") for t, _, _, _ in log) else True)
    tail = T.and_(*[T.or_(*[T.and_(*pc) for t, _, _, pc in log if t == tag]) if any(t == tag for t, _, _, _ in log) else False for tag in ("remove_expired", "limit_size")])
    S.prove(ctx, ob, "expiry_and_size_limit_always_run", [], tail)
    S.witness(ctx, ob, "reach_pending_to_gap", [], when("gap_rtx", "id(P1)"))
    S.witness(ctx, ob, "reach_gap_to_proposed", [], when("proposed_rtx", "id(G0)"))


def _all_earlier_ok(ctx, n):
    return True


def m2_remove_committed(S):
    ob = "C12.m2"
    f_all = _find(S, lambda x: x.short == "remove_committed_txs" and "tx-pool/src/pool.rs" in x.name and "{closure" not in x.name, "TxPool::remove_committed_txs")
    f_one = _find(S, lambda x: x.short == "remove_committed_tx" and "tx-pool/src/pool.rs" in x.name and "{closure" not in x.name, "TxPool::remove_committed_tx")
    # ---- one transaction
    for nconf in (0, 1, 2):
        ctx = S.ctx(unwind=10)
        ctx.uninterpreted_unknown_calls = True
        pooled = ctx.bool("tx_itself_is_pooled")
        log = []

        def remove_entry(ex, c, a, d, log=log):
            log.append(("remove_entry", nmv(ex, a[1]), list(ex.pc)))
            return mk_option(pooled.t, OpaqueV("removed_entry", "TxEntry"), d)

        def resolve_conflict(ex, c, a, d, log=log, nconf=nconf):
            log.append(("resolve_conflict", nmv(ex, a[1]), list(ex.pc)))
            return ListV(tuple(AggV((OpaqueV(f"conflict{k}", "TxEntry"), OpaqueV(f"reject{k}", "Reject")), "(TxEntry, Reject)") for k in range(nconf)), "Vec<(TxEntry, Reject)>")

        def call_reject(ex, c, a, d, log=log):
            log.append(("reject", nmv(ex, a[2]) + "/" + nmv(ex, a[3]), list(ex.pc)))
            return UNIT
        ctx.env = list(E.LOGGING_OFF) + [
            (E.rx(r"PoolMap::remove_entry$"), remove_entry),
            (E.rx(r"PoolMap::resolve_conflict$"), resolve_conflict),
            (E.rx(r"Callbacks::call_reject$"), call_reject),
            (E.rx(r"TransactionView::proposal_short_id$"), lambda ex, c, a, d: OpaqueV("id(" + nmv(ex, a[0]) + ")", d)),
            (E.rx(r"TransactionView::hash$|TxEntry::transaction$"), E.opaque_call()),
        ] + list(E.LIST_ADAPTORS)
        ps = S.run(ctx, f_one, [ctx.ref_to(OpaqueV("pool", "TxPool")), ctx.ref_to(OpaqueV("tx", "TransactionView")), ctx.ref_to(OpaqueV("callbacks", "Callbacks"))])
        tag = f"one_tx_{nconf}_conflicts"
        S.prove(ctx, ob, f"{tag}_no_panic", [], T.not_(cond_of(panics(ps))))
        cond = lambda t, n=None: T.or_(*[T.and_(*pc) for tt, nn, pc in log if tt == t and (n is None or nn == n)]) if any(tt == t and (n is None or nn == n) for tt, nn, _ in log) else False
        S.prove(ctx, ob, f"{tag}_the_entry_with_the_committed_id_is_removed", [], cond("remove_entry", "id(tx)"))
        S.prove(ctx, ob, f"{tag}_conflicts_are_resolved_whether_or_not_the_transaction_was_pooled", [], cond("resolve_conflict", "tx"))
        S.prove(ctx, ob, f"{tag}_every_conflicting_entry_is_reported_rejected_with_its_reason", [], T.and_(*[cond("reject", f"conflict{k}/reject{k}") for k in range(nconf)]) if nconf else True)
        S.prove(ctx, ob, f"{tag}_nothing_else_is_rejected", [], bool({n for t, n, _ in log if t == "reject"} <= {f"conflict{k}/reject{k}" for k in range(nconf)}))
        S.witness(ctx, ob, f"{tag}_reach_not_pooled", [T.not_(pooled.t)], cond("resolve_conflict", "tx"))
    # ---- the loop
    for ntx in (0, 1, 2):
        ctx = S.ctx(unwind=10)
        ctx.uninterpreted_unknown_calls = True
        empty = ctx.bool("no_block_was_detached")
        log = []
        ctx.env = list(E.LOGGING_OFF) + [
            (E.rx(r"TxPool::remove_committed_tx$"), lambda ex, c, a, d, log=log: (log.append(("one", nmv(ex, a[1]), list(ex.pc))), UNIT)[1]),
            (E.rx(r"TxPool::resolve_conflict_header_dep$"), lambda ex, c, a, d, log=log: (log.append(("header_dep", nmv(ex, a[1]), list(ex.pc))), UNIT)[1]),
            (E.rx(r"LruCache::<.*>::put$"), lambda ex, c, a, d, log=log: (log.append(("cache", nmv(ex, a[1]) + "->" + nmv(ex, a[2]), list(ex.pc))),
                                                            mk_option(ex.ctx.bool("was_already_cached_" + re.sub(r"[^A-Za-z0-9]", "_", nmv(ex, a[1]))).t, OpaqueV("older_hash", "Byte32"), d))[1]),
            (E.rx(r"HashSet::<.*>::is_empty$"), lambda ex, c, a, d: empty),
            (E.rx(r"TransactionView::proposal_short_id$"), lambda ex, c, a, d: OpaqueV("id(" + nmv(ex, a[0]) + ")", d)),
            (E.rx(r"TransactionView::hash$"), lambda ex, c, a, d: OpaqueV("hash(" + nmv(ex, a[0]) + ")", d)),
        ] + list(E.LIST_ADAPTORS)
        txs = AggV((ListV(tuple(OpaqueV(f"tx{k}", "TransactionView") for k in range(ntx)), "Vec<?>"), IntV(0, "usize")), "ListIterRef")
        ps = S.run(ctx, f_all, [ctx.ref_to(OpaqueV("pool", "TxPool")), txs, ctx.ref_to(OpaqueV("callbacks", "Callbacks")), ctx.ref_to(OpaqueV("detached_headers", "HashSet"))])
        tag = f"{ntx}_attached_txs"
        S.prove(ctx, ob, f"{tag}_no_panic", [], T.not_(cond_of(panics(ps))))
        ones = [n for t, n, _ in log if t == "one"]
        S.prove(ctx, ob, f"{tag}_every_attached_transaction_is_processed_in_order", [], bool(_dedupe(ones) == [f"tx{k}" for k in range(ntx)]), extra={"note": str(ones)})
        # ... on every path (also for a transaction that was seen as committed before: a reorganisation can commit it again)
        S.prove(ctx, ob, f"{tag}_every_attached_transaction_is_processed_whatever_the_committed_hash_cache_held", [],
                T.and_(*[T.or_(*[T.and_(*pc) for t, n_, pc in log if t == "one" and n_ == f"tx{k}"]) if any(t == "one" and n_ == f"tx{k}" for t, n_, _ in log) else False for k in range(ntx)]) if ntx else True)
        caches = {n for t, n, _ in log if t == "cache"}
        S.prove(ctx, ob, f"{tag}_committed_hash_cache_maps_each_id_to_its_hash", [], bool(caches == {f"id(tx{k})->hash(tx{k})" for k in range(ntx)}), extra={"note": str(caches)})
        hd = [(n, pc) for t, n, pc in log if t == "header_dep"]
        hcond = T.or_(*[T.and_(*pc) for _, pc in hd]) if hd else False
        S.prove(ctx, ob, f"{tag}_header_deps_resolved_iff_some_block_was_detached_with_that_header_set", [], T.and_(T.iff(hcond, T.not_(empty.t)), bool(all(n == "detached_headers" for n, _ in hd))))


def _dedupe(xs):
    out = []
    for x in xs:
        if x not in out:
            out.append(x)
    return out


def _linked_hash_set_env():
    """`ckb_util::LinkedHashSet<TransactionView>` as an insertion-ordered list without duplicates; elements are equal exactly when their provenance names are equal
    (a scenario fixes which transactions of two blocks are the same)"""
    from mir2smt.builtins import _wr

    def new(ex, c, a, d):
        return ListV((), "LinkedHashSet")

    def extend(ex, c, a, d):
        s = deref(ex, a[0])
        items = E._as_items(ex, deref(ex, a[1]))
        if not isinstance(s, ListV) or items is None:
            raise Stop("LinkedHashSet::extend on an unknown set / iterator")
        cur = list(s.items)
        for x in items:
            x = deref(ex, x) if isinstance(x, RefV) else x
            if nmv(ex, x) not in [nmv(ex, y) for y in cur]:
                cur.append(x)
        _wr(ex, a[0], ListV(tuple(cur), "LinkedHashSet"))
        return UNIT

    def difference(ex, c, a, d):
        x, y = deref(ex, a[0]), deref(ex, a[1])
        if not isinstance(x, ListV) or not isinstance(y, ListV):
            raise Stop("LinkedHashSet::difference on unknown sets")
        names = [nmv(ex, e) for e in y.items]
        return AggV((ListV(tuple(e for e in x.items if nmv(ex, e) not in names), "Vec<?>"), IntV(0, "usize")), "ListIterRef")

    def it(ex, c, a, d):
        x = deref(ex, a[0])
        if not isinstance(x, ListV):
            from mir2smt.exec import ENV_PASS
            return ENV_PASS
        return AggV((x, IntV(0, "usize")), "ListIterRef")

    def cloned(ex, c, a, d):
        v = deref(ex, a[0])
        if E._is_it(v):
            return E._owned([deref(ex, x) if isinstance(x, RefV) else x for x in E._rest(ex, v)])
        from mir2smt.exec import ENV_PASS
        return ENV_PASS
    return [
        (E.rx(r"<LinkedHashSet<.*> as Default>::default$"), new),
        (E.rx(r"<LinkedHashSet<.*> as Extend<.*>>::extend::<"), extend),
        (E.rx(r"LinkedHashSet::<.*>::difference$"), difference),
        (E.rx(r"LinkedHashSet::<.*>::iter$"), it),
        (E.rx(r" as Iterator>::cloned::<"), cloned),
    ]


def m3_reorg_entry_point(S):
    from mir2smt.exec import CoroV
    ob = "C12.m3"
    c = [f for f in S.prog.funcs if f.kind == "fn" and re.search(r"process::<impl at [^>]*>::update_tx_pool_for_reorg::\{closure#0\}$", f.name) and len(f.params) == 2 and "Context" in f.params[1][1]]
    if len(c) != 1:
        raise Inconclusive(f"update_tx_pool_for_reorg coroutine: {len(c)} candidates")
    f = c[0]
    ix = {}
    for name, place in f.debug.items():
        m = re.match(r"\(\(\*\(_1\.0: .*?\)\)\.(\d+): ", place)
        if m:
            ix[name] = int(m.group(1))
    need = ["self", "detached_blocks", "attached_blocks", "detached_proposal_id", "snapshot"]
    if any(n not in ix for n in need):
        raise Inconclusive(f"update_tx_pool_for_reorg upvars: {ix}")
    # detached: D1 (older) = [cb, a, b], D2 = [cb, c (child of a), b2]; attached: A1 = [cb, b, x]  (b is committed on both branches)
    blocks = {"D1": ["cbD1", "a", "b"], "D2": ["cbD2", "c", "e"], "A1": ["cbA1", "b", "x"], "A2": ["cbA2", "y"]}
    ctx = S.ctx(unwind=12)
    ctx.uninterpreted_unknown_calls = True
    ctx.max_paths = 2000
    calls = []

    def rec(tag, *idx):
        def h(ex, c_, a, d):
            calls.append((tag, tuple(nmv(ex, a[i]) for i in idx)))
            ex.log.append(("c12", tag, [], list(ex.pc)))
            return OpaqueV(tag + "_future", d) if tag in ("readd", "fetch_cache", "orphans") else UNIT
        return h

    def poll(ex, c_, a, d):
        n = nmv(ex, a[0])
        if "lock_future" in n:
            return EnumV(0, ((0, (OpaqueV("guard_of_" + n, "RwLockWriteGuard"),)),), d)
        return EnumV(0, ((0, (OpaqueV("done_" + n, "?"),)),), d)

    def txs(ex, c_, a, d):
        b = nmv(ex, a[0])
        return ListV(tuple(OpaqueV(t, "TransactionView") for t in blocks[b]), "Vec<TransactionView>")

    def collect_set(ex, c_, a, d):
        v = deref(ex, a[0])
        if E._is_it(v):
            return OpaqueV("set{" + ",".join(sorted(nmv(ex, x) for x in E._rest(ex, v))) + "}", d)
        from mir2smt.exec import ENV_PASS
        return ENV_PASS
    ctx.env = list(E.LOGGING_OFF) + [
        (E.rx(r"Option::<.*BlockAssembler>::is_some$"), lambda ex, c_, a, d: ex.ctx.bool("mine_mode")),
        (E.rx(r"BlockView::transactions$"), txs),
        (E.rx(r"BlockView::header$"), lambda ex, c_, a, d: OpaqueV("header(" + nmv(ex, a[0]) + ")", d)),
        (E.rx(r"HeaderView::hash$"), lambda ex, c_, a, d: OpaqueV("hash(" + nmv(ex, a[0]) + ")", d)),
        (E.rx(r"FeeEstimator::commit_block$"), rec("fee_commit", 1)),
        (E.rx(r"fetch_txs_verify_cache::<"), rec("fetch_cache", 1)),
        (E.rx(r"^_update_tx_pool_for_reorg$|::_update_tx_pool_for_reorg$"), rec("update", 1, 2, 3, 4, 6)),
        (E.rx(r"TxPoolService>::readd_detached_tx$|::readd_detached_tx$"), rec("readd", 2)),
        (E.rx(r"remove_orphan_txs_by_attach::<"), rec("orphans", 1)),
        (E.rx(r"VerifyQueue::remove_txs::<"), rec("queue_remove", 1)),
        (E.rx(r"RwLock::<.*>::write$"), lambda ex, c_, a, d: OpaqueV("lock_future", d)),
        (E.rx(r" as Future>::poll$"), poll),
        (E.rx(r"as DerefMut>::deref_mut$|<Arc<.*> as Deref>::deref$"), lambda ex, c_, a, d: ex.ctx.ref_to(OpaqueV(nmv(ex, a[0]), "?"))),
        (E.rx(r" as Iterator>::collect::<HashSet<"), collect_set),
        (E.rx(r"TransactionView::proposal_short_id$"), lambda ex, c_, a, d: OpaqueV("id(" + nmv(ex, a[0]) + ")", d)),
        (E.rx(r"<Vec<.*TransactionView> as Deref>::deref$"), lambda ex, c_, a, d: a[0]),
    ] + _linked_hash_set_env() + list(E.LIST_ADAPTORS)
    ups = {
        ix["self"]: ctx.ref_to(OpaqueV("service", "TxPoolService")),
        ix["detached_blocks"]: ListV((OpaqueV("D1", "BlockView"), OpaqueV("D2", "BlockView")), "VecDeque<BlockView>"),
        ix["attached_blocks"]: ListV((OpaqueV("A1", "BlockView"), OpaqueV("A2", "BlockView")), "VecDeque<BlockView>"),
        ix["detached_proposal_id"]: OpaqueV("detached_ids", "HashSet"),
        ix["snapshot"]: OpaqueV("new_snapshot", "Arc<Snapshot>"),
    }
    coro = CoroV(0, tuple(sorted(ups.items())), (), "coroutine")
    ps = S.run(ctx, f, [AggV((ctx.ref_to(coro),), "Pin"), ctx.ref_to(OpaqueV("task_context", "Context"))])
    rs = returns(ps)
    ready = [p for p in rs if isinstance(p.value, EnumV) and p.value.disc == 0]
    S.prove(ctx, ob, "completes_without_panicking_or_suspending", [], bool(ready and len(ready) == len(rs)) and T.not_(cond_of(panics(ps))), extra={"note": str([(p.outcome, str(p.value)[:60]) for p in ps][:4])})
    upd = {n for t, n in calls if t == "update"}
    S.prove(ctx, ob, "pool_update_gets_attached_set_detached_header_hashes_detached_ids_new_snapshot_and_mine_mode", [],
            bool(upd == {("[b,x,y]", "set{hash(header(D1)),hash(header(D2))}", "detached_ids", "new_snapshot", "mine_mode")}), extra={"note": str(upd)})
    rd = {n for t, n in calls if t == "readd"}
    S.prove(ctx, ob, "retained_transactions_are_the_detached_minus_attached_oldest_block_first_without_cellbases", [], bool(rd == {("[a,c,e]",)}), extra={"note": str(rd)})
    fc = {n for t, n in calls if t == "fetch_cache"}
    S.prove(ctx, ob, "verify_cache_is_fetched_for_the_retained_transactions", [], bool(fc == {("[a,c,e]",)}), extra={"note": str(fc)})
    fee = _dedupe([n for t, n in calls if t == "fee_commit"])
    S.prove(ctx, ob, "fee_estimator_sees_every_attached_block_in_order", [], bool(fee == [("A1",), ("A2",)]), extra={"note": str(fee)})
    seqs = [[e[1] for e in p.log if e[0] == "c12" and e[1] in ("update", "readd", "orphans", "queue_remove")] for p in ready]
    S.prove(ctx, ob, "pool_is_updated_before_detached_transactions_are_readded_then_orphans_and_queue", [], bool(seqs and all(q == ["update", "readd", "orphans", "queue_remove"] for q in seqs)), extra={"note": str(seqs[:3])})
    oq = {(t, n) for t, n in calls if t in ("orphans", "queue_remove")}
    S.prove(ctx, ob, "orphans_and_verify_queue_are_purged_of_the_attached_transactions", [], bool(oq == {("orphans", ("[b,x,y]",)), ("queue_remove", ("[id(b),id(x),id(y)]",))}), extra={"note": str(oq)})


OBLIGATIONS = [m1_reorg_step, m2_remove_committed, m3_reorg_entry_point]

ENGINE = "M"
LEVEL = "other"
EXPLANATION = ("The pool's reorganisation step (_update_tx_pool_for_reorg, remove_committed_txs/remove_committed_tx, update_tx_pool_for_reorg) is executed symbolically from its MIR with the pool map, "
               "the proposal view and the callbacks as environment symbols; the logged calls (which entry is re-staged, removed, rejected, in which order, against which snapshot) are decided "
               "against the rule stated in the property.")
BOUNDS = {"entries": "1 gap, 2 pending, 1 proposed entry; 0..2 attached transactions; 0..2 conflicting entries; 2 detached / 2 attached blocks of <= 2 transactions", "outside": "hash containers and the multi-index map, readd_detached_tx's resolution, service loop, orphan/verify queues"}
ASSUMPTIONS = ["pool map operations, proposal view lookups and callbacks are environment symbols (arbitrary answers)", "LinkedHashSet is modelled as an insertion-ordered list without duplicates"]
TRUSTED = []
LEVEL_TEXT = ("Decided on the real MIR: on a tip change the pool adopts the new snapshot, removes committed transactions and everything conflicting with them (also when the committed transaction was "
              "not pooled), resolves entries depending on detached headers, re-stages gap/pending entries exactly according to the new proposal window (block-assembling nodes), and re-adds "
              "detached transactions oldest block first after the update. The contents of the hash containers over histories and the asynchronous service are outside and not claimed.")
LEVEL_NOTE = "Partial claim (the reorg-processing step as a sequence of pool-map operations). Container internals, admission of re-added transactions, async service: outside."
TECHNIQUE = "symbolic execution of rustc MIR (dataflow mode, logged pool-map calls, coroutine body) -> integer-theory SMT (cvc5 + z3)"
DESIGN_REF = "DESIGN.md section 4 (C12)"


def m4_header_dep_conflicts(S):
    """`PoolMap::resolve_conflict_header_dep(detached)`: with the header-dep index and the detached set as containers with SYMBOLIC hashes (two pooled transactions, one with two
    header deps, one with one; one or two detached headers): a transaction is removed (with its descendants) iff ANY of its header deps is detached; every removed entry is reported
    with the reason `InvalidHeader(h)` for a detached header h that is one of that transaction's deps; nothing else is removed"""
    from mir2smt import symmap as SM
    from mir2smt.srcinfo import field_index
    ob = "C12.m4"
    f = _find(S, lambda x: x.short == "resolve_conflict_header_dep" and "component/pool_map.rs" in x.name and "{closure" not in x.name and len(x.params) == 2, "PoolMap::resolve_conflict_header_dep")
    PM = field_index("tx-pool/src/component/pool_map.rs", "PoolMap")
    ED = field_index("tx-pool/src/component/edges.rs", "Edges")
    deps = {"t0": ["h0", "h1"], "t1": ["h2"]}
    for ndet in (1, 2):
        ctx = S.ctx(unwind=12)
        ctx.uninterpreted_unknown_calls = True
        ctx.prune_with_solver = True
        ctx.max_paths = 4000
        ident = lambda n_: ctx.int("id!" + n_, "u64").t
        ctx.add_side(T.ne(ident("t0"), ident("t1")))
        hd = SM.MapV(tuple((ident(t), ctx.ref_to(ListV(tuple(OpaqueV(h, "Byte32") for h in hs), "Vec<Byte32>")), OpaqueV(t, "ProposalShortId")) for t, hs in deps.items()), "HashMap<ProposalShortId, Vec<Byte32>>")
        edges = AggV(tuple((hd if k == "header_deps" else OpaqueV("edges." + k, "?")) for k, _ in sorted(ED.items(), key=lambda kv: kv[1])), "Edges")
        pm = ctx.ref_to(AggV(tuple((edges if k == "edges" else OpaqueV("pm." + k, "?")) for k, _ in sorted(PM.items(), key=lambda kv: kv[1])), "PoolMap"))
        det_names = [f"d{k}" for k in range(ndet)]
        # the detached set is a set: its elements are different hashes
        for i_ in range(ndet):
            for j_ in range(i_):
                ctx.add_side(T.ne(ident(det_names[i_]), ident(det_names[j_])))
        detached = ctx.ref_to(SM.MapV(tuple((ident(n_), None, OpaqueV(n_, "Byte32")) for n_ in det_names), "HashSet<Byte32>", True))
        removed = []

        def remove(ex, c, a, d):
            t = nmv(ex, a[1])
            removed.append((t, list(ex.pc)))
            ex.log.append(("removed", c, [t], list(ex.pc)))
            return ListV((OpaqueV("entry_" + t, "TxEntry"), OpaqueV("child_of_" + t, "TxEntry")), "Vec<TxEntry>")
        ctx.env = list(E.LOGGING_OFF) + [
            (E.rx(r"PoolMap::remove_entry_and_descendants$"), remove),
            (E.rx(r"<(Byte32|ckb_types::packed::Byte32|ckb_types::packed::ProposalShortId|ProposalShortId) as (Clone|ToOwned)>::(clone|to_owned)$"), lambda ex, c, a, d: deref(ex, a[0])),
        ] + SM.handlers(r"(ckb_types::packed::)?(ProposalShortId|Byte32)") + SM.EXTRAS + list(E.LIST_ADAPTORS)
        ps = S.run(ctx, f, [pm, detached])
        tag = f"{ndet}_detached"
        S.prove(ctx, ob, f"{tag}_no_panic", [], T.not_(cond_of(panics(ps))))
        isdet = lambda h: T.or_(*[T.eq(ident(h), ident(d_)) for d_ in det_names])
        for t, hs in deps.items():
            when = T.or_(*[T.and_(*pc) for t_, pc in removed if t_ == t]) if any(t_ == t for t_, _ in removed) else False
            S.prove(ctx, ob, f"{tag}_{t}_is_removed_iff_any_of_its_header_deps_is_detached", [], T.iff(when, T.or_(*[isdet(h) for h in hs])))
        goals = []
        for p in returns(ps):
            v = p.value
            rem = [e[2][0] for e in p.log if e[0] == "removed"]
            ok = isinstance(v, ListV) and len(v.items) == 2 * len(rem) and len(set(rem)) == len(rem) and set(rem) <= set(deps)
            terms = []
            if ok:
                for k, t in enumerate(rem):
                    for j, who in enumerate((f"entry_{t}", f"child_of_{t}")):
                        item = v.items[2 * k + j]
                        ent, rej = item.fields
                        ok = ok and getattr(ent, "name", None) == who
                        # Reject::Resolve(OutPointError::InvalidHeader(h)): dig out the hash
                        hname = _leaf_name(rej)
                        ok = ok and hname is not None
                        if hname is not None:
                            terms.append(T.and_(T.or_(*[T.eq(ident(hname), ident(h)) for h in deps[t]]), isdet(hname)) if hname in sum(deps.values(), []) + det_names else False)
            goals.append(T.implies(p.cond(), T.and_(bool(ok), *terms)))
        S.prove(ctx, ob, f"{tag}_removed_entries_and_their_descendants_are_reported_with_a_detached_header_of_that_transaction", [], T.and_(*goals) if goals else False)
        S.witness(ctx, ob, f"{tag}_reach_second_dep_only", [], T.and_(T.not_(isdet("h0")), isdet("h1")))


def _leaf_name(v):
    """the single opaque leaf inside nested enum/newtype wrappers"""
    seen = []

    def walk(x):
        if isinstance(x, OpaqueV):
            seen.append(x.name)
        elif isinstance(x, EnumV):
            for _, pl in x.payloads:
                for y in pl:
                    walk(y)
        elif isinstance(x, AggV):
            for y in x.fields:
                walk(y)
    walk(v)
    return seen[0] if len(seen) == 1 else None


OBLIGATIONS = OBLIGATIONS + [m4_header_dep_conflicts]

# ---- extended claim (session 4, after seed round 5)
LEVEL_TEXT = LEVEL_TEXT + ' m4: entries depending on a detached header are removed with their descendants iff ANY of their header deps is detached (symbolic hashes), each reported with that header.'
LEVEL_NOTE = LEVEL_NOTE + ' Header-dep conflicts: two pooled transactions, up to two detached headers.'
