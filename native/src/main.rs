//! Native replay driver: calls real /repo functions on concrete inputs and prints the result.
//! Usage: vnative <key> <args...>; output: one line `ok <ints...>` | `panic`.
use ckb_types::core::{Capacity, EpochExt, EpochNumberWithFraction, Ratio};
use std::panic;

fn u(s: &str) -> u64 {
    s.parse::<u64>().unwrap_or_else(|_| panic!("bad u64 {s}"))
}

fn ord(o: std::cmp::Ordering) -> i64 {
    o as i8 as i64
}

fn epoch_ext(a: &[String]) -> EpochExt {
    // number base rem start length compact
    EpochExt::new_builder()
        .number(u(&a[0]))
        .base_block_reward(Capacity::shannons(u(&a[1])))
        .remainder_reward(Capacity::shannons(u(&a[2])))
        .start_number(u(&a[3]))
        .length(u(&a[4]))
        .compact_target(u(&a[5]) as u32)
        .build()
}

fn cap_res(r: Result<Capacity, ckb_types::core::CapacityError>) -> String {
    match r {
        Ok(c) => format!("0 {}", c.as_u64()),
        Err(_) => "1 0".to_string(),
    }
}

fn run(key: &str, a: &[String]) -> String {
    let e = |i: usize| EpochNumberWithFraction::from_full_value_unchecked(u(&a[i]));
    match key {
        "epoch_new_unchecked" => format!("{}", EpochNumberWithFraction::new_unchecked(u(&a[0]), u(&a[1]), u(&a[2])).full_value()),
        "epoch_number" => format!("{}", e(0).number()),
        "epoch_index" => format!("{}", e(0).index()),
        "epoch_length" => format!("{}", e(0).length()),
        "epoch_from_full_value" => format!("{}", EpochNumberWithFraction::from_full_value(u(&a[0])).full_value()),
        "epoch_is_well_formed" => format!("{}", e(0).is_well_formed() as u8),
        "epoch_is_well_formed_increment" => format!("{}", e(0).is_well_formed_increment() as u8),
        "epoch_is_genesis" => format!("{}", e(0).is_genesis() as u8),
        "epoch_cmp" => format!("{}", ord(e(0).cmp(&e(1)))),
        "epoch_is_successor_of" => format!("{}", e(0).is_successor_of(e(1)) as u8),
        "epoch_min_after_n" => format!("{}", e(0).minimum_epoch_number_after_n_blocks(u(&a[1]))),
        "epochext_set_primary_then_block_reward" => {
            // ext(6) R number
            let mut x = epoch_ext(&a[0..6]);
            x.set_primary_reward(Capacity::shannons(u(&a[6])));
            cap_res(x.block_reward(u(&a[7])))
        }
        "epochext_set_primary_then_primary_reward" => {
            let mut x = epoch_ext(&a[0..6]);
            x.set_primary_reward(Capacity::shannons(u(&a[6])));
            format!("{}", x.primary_reward().as_u64())
        }
        "epochext_secondary_block_issuance" => {
            let x = epoch_ext(&a[0..6]);
            cap_res(x.secondary_block_issuance(u(&a[6]), Capacity::shannons(u(&a[7]))))
        }
        "cap_safe_add" => cap_res(Capacity::shannons(u(&a[0])).safe_add(Capacity::shannons(u(&a[1])))),
        "cap_safe_sub" => cap_res(Capacity::shannons(u(&a[0])).safe_sub(Capacity::shannons(u(&a[1])))),
        "cap_safe_mul" => cap_res(Capacity::shannons(u(&a[0])).safe_mul(Capacity::shannons(u(&a[1])))),
        "cap_safe_mul_ratio" => cap_res(Capacity::shannons(u(&a[0])).safe_mul_ratio(Ratio::new(u(&a[1]), u(&a[2])))),
        _ => more::run(key, a),
    }
}

mod more;
mod molwalk;
mod freezer;

fn main() {
    let args: Vec<String> = std::env::args().skip(1).collect();
    // batch mode: each stdin line is `key args...`
    if args.is_empty() {
        use std::io::BufRead;
        panic::set_hook(Box::new(|_| {}));
        for line in std::io::stdin().lock().lines() {
            let line = line.unwrap();
            let parts: Vec<String> = line.split_whitespace().map(|s| s.to_string()).collect();
            if parts.is_empty() {
                continue;
            }
            let r = panic::catch_unwind(|| run(&parts[0], &parts[1..]));
            match r {
                Ok(s) => println!("ok {s}"),
                Err(_) => println!("panic"),
            }
        }
        return;
    }
    panic::set_hook(Box::new(|_| {}));
    let r = panic::catch_unwind(|| run(&args[0], &args[1..]));
    match r {
        Ok(s) => println!("ok {s}"),
        Err(_) => println!("panic"),
    }
}
