//! Native replay of the C09 freezer obligations against the REAL crate on REAL files in a temp directory.
//! Arguments: n, then n pairs (len, newfile), then kind-specific parameters. Every remaining free parameter of the
//! obligation (retrieve index, cut lengths, missing flag) is tried; output: `0` when the property holds for all of
//! them, else `1 <param values...>` for the first failing combination.
use ckb_freezer::FreezerFilesBuilder;
use std::fs;
use std::io::Write;
use std::path::PathBuf;
use std::sync::atomic::{AtomicU64, Ordering};

static CTR: AtomicU64 = AtomicU64::new(0);

fn u(s: &str) -> u64 {
    s.parse::<u64>().unwrap()
}

struct Ghost {
    items: Vec<Vec<u8>>,
    file: Vec<u32>,
    end: Vec<u64>,
}

fn tmpdir() -> PathBuf {
    let d = std::env::temp_dir().join(format!("vnative-freezer-{}-{}", std::process::id(), CTR.fetch_add(1, Ordering::SeqCst)));
    let _ = fs::remove_dir_all(&d);
    fs::create_dir_all(&d).unwrap();
    d
}

fn entry(file_id: u32, offset: u64) -> Vec<u8> {
    let mut v = file_id.to_le_bytes().to_vec();
    v.extend_from_slice(&offset.to_le_bytes());
    v
}

/// writes the on-disk state for the layout directly in the freezer's file format
fn make_state(dir: &PathBuf, shape: &[(usize, bool)]) -> Ghost {
    let mut g = Ghost { items: vec![], file: vec![], end: vec![] };
    let mut index = entry(0, 0);
    let mut files: Vec<Vec<u8>> = vec![vec![]];
    let mut next = 0x11u8;
    for (l, nf) in shape {
        if *nf {
            files.push(vec![]);
        }
        let mut it = vec![];
        for _ in 0..*l {
            it.push(next);
            next = next.wrapping_add(0x11);
        }
        files.last_mut().unwrap().extend_from_slice(&it);
        g.items.push(it);
        g.file.push(files.len() as u32 - 1);
        g.end.push(files.last().unwrap().len() as u64);
        index.extend_from_slice(&entry(files.len() as u32 - 1, files.last().unwrap().len() as u64));
    }
    fs::File::create(dir.join("INDEX")).unwrap().write_all(&index).unwrap();
    for (i, f) in files.iter().enumerate() {
        fs::File::create(dir.join(format!("blk{i:06}"))).unwrap().write_all(f).unwrap();
    }
    g
}

fn parse_shape(a: &[String]) -> (Vec<(usize, bool)>, usize) {
    let n = u(&a[0]) as usize;
    let mut sh = vec![];
    for i in 0..n {
        sh.push((u(&a[1 + 2 * i]) as usize, u(&a[2 + 2 * i]) != 0));
    }
    (sh, 1 + 2 * n)
}

fn new_item(l: usize) -> Vec<u8> {
    (0..l).map(|k| 0xA0u8 + k as u8).collect()
}

/// every item 1..=m reads back byte for byte


macro_rules! open {
    ($dir:expr, $ms:expr) => {{
        let r = FreezerFilesBuilder::new($dir.clone()).max_file_size($ms).enable_compression(false).build();
        match r {
            Ok(mut ff) => {
                ff.preopen().unwrap();
                Some(ff)
            }
            Err(_) => None,
        }
    }};
}

pub fn k2(a: &[String]) -> String {
    let (sh, _) = parse_shape(a);
    let dir = tmpdir();
    let g = make_state(&dir, &sh);
    let mut ff = open!(dir, 8).unwrap();
    let mut bad = None;
    for i in 0..=(sh.len() as u64 + 2) {
        let r = ff.retrieve(i);
        let ok = match r {
            Ok(Some(v)) => i >= 1 && (i as usize) <= sh.len() && v == g.items[i as usize - 1],
            Ok(None) => i < 1 || (i as usize) > sh.len(),
            Err(_) => false,
        };
        if !ok {
            bad = Some(i);
            break;
        }
    }
    drop(ff);
    let _ = fs::remove_dir_all(&dir);
    match bad {
        Some(i) => format!("1 {i}"),
        None => "0".into(),
    }
}

pub fn k1(a: &[String]) -> String {
    let (sh, p) = parse_shape(a);
    let l = u(&a[p]) as usize;
    let ms = u(&a[p + 1]);
    for j in 0..=(sh.len() as u64) {
        let dir = tmpdir();
        let mut g = make_state(&dir, &sh);
        let mut ff = open!(dir, ms).unwrap();
        let _ = ff.retrieve(j);
        let it = new_item(l);
        let r = ff.append(sh.len() as u64 + 1, &it);
        g.items.push(it);
        let mut ok = r.is_ok() && ff.number() == sh.len() as u64 + 2;
        if ok {
            for i in 1..=g.items.len() {
                match ff.retrieve(i as u64) {
                    Ok(Some(v)) if v == g.items[i - 1] => {}
                    _ => ok = false,
                }
            }
        }
        // and the bytes are really on disk: re-open from scratch and read again
        drop(ff);
        if ok {
            match open!(dir, ms) {
                Some(mut f2) => {
                    ok = f2.number() == g.items.len() as u64 + 1;
                    for i in 1..=g.items.len() {
                        match f2.retrieve(i as u64) {
                            Ok(Some(v)) if v == g.items[i - 1] => {}
                            _ => ok = false,
                        }
                    }
                }
                None => ok = false,
            }
        }
        let _ = fs::remove_dir_all(&dir);
        if !ok {
            return format!("1 {j}");
        }
    }
    "0".into()
}

pub fn k3(a: &[String]) -> String {
    let (sh, _) = parse_shape(a);
    let n = sh.len() as u64;
    for t in 0..=(n + 2) {
        let dir = tmpdir();
        let g = make_state(&dir, &sh);
        let mut ff = open!(dir, 8).unwrap();
        let r = ff.truncate(t);
        let expect = if t >= 1 && t + 1 < n + 1 { t } else { n };
        let mut ok = r.is_ok() && ff.number() == expect + 1;
        for i in 1..=(expect as usize) {
            match ff.retrieve(i as u64) {
                Ok(Some(v)) if v == g.items[i - 1] => {}
                _ => ok = false,
            }
        }
        if ok && expect < n {
            let hf = g.file[expect as usize - 1];
            for f in (hf + 1)..=(g.file[n as usize - 1]) {
                if dir.join(format!("blk{f:06}")).exists() {
                    ok = false;
                }
            }
        }
        drop(ff);
        let _ = fs::remove_dir_all(&dir);
        if !ok {
            return format!("1 {t}");
        }
    }
    "0".into()
}

pub fn k5(a: &[String]) -> String {
    let (sh, p) = parse_shape(a);
    let l = u(&a[p]) as usize;
    let ms = u(&a[p + 1]);
    let n = sh.len();
    let head_bytes = if n == 0 { 0 } else { sh.iter().fold(0u64, |acc, (l, nf)| if *nf { *l as u64 } else { acc + *l as u64 }) };
    let rollover = head_bytes + l as u64 > ms;
    let pre_data = if rollover { 0 } else { head_bytes as usize };
    let post_data = pre_data + l;
    let pre_idx = (n + 1) * 12;
    for cd in pre_data..=post_data {
        for ci in pre_idx..=(pre_idx + 12) {
            for missing in 0..2 {
                if missing == 1 && !(rollover && cd == 0) {
                    continue;
                }
                let dir = tmpdir();
                let mut g = make_state(&dir, &sh);
                let mut ff = open!(dir, ms).unwrap();
                let it = new_item(l);
                ff.append(n as u64 + 1, &it).unwrap();
                g.items.push(it);
                drop(ff);
                let head_file = if n == 0 { 0 } else { g.file[n - 1] };
                let new_file = if rollover { head_file + 1 } else { head_file };
                let fp = dir.join(format!("blk{new_file:06}"));
                fs::OpenOptions::new().write(true).open(&fp).unwrap().set_len(cd as u64).unwrap();
                if missing == 1 {
                    fs::remove_file(&fp).unwrap();
                }
                fs::OpenOptions::new().write(true).open(dir.join("INDEX")).unwrap().set_len(ci as u64).unwrap();
                let complete = cd == post_data && ci == pre_idx + 12;
                let mut ok = true;
                match open!(dir, ms) {
                    Some(mut f2) => {
                        let num = f2.number();
                        if num < 1 {
                            ok = false;
                        } else {
                            let m = (num - 1) as usize;
                            if m > n + 1 || m < (if complete { n + 1 } else { n }) {
                                ok = false;
                            } else {
                                for i in 1..=m {
                                    match f2.retrieve(i as u64) {
                                        Ok(Some(v)) if v == g.items[i - 1] => {}
                                        _ => ok = false,
                                    }
                                }
                            }
                        }
                    }
                    None => ok = false,
                }
                let _ = fs::remove_dir_all(&dir);
                if !ok {
                    return format!("1 {cd} {ci} {missing}");
                }
            }
        }
    }
    "0".into()
}

pub fn k6(a: &[String]) -> String {
    let (sh, p) = parse_shape(a);
    let t = u(&a[p]);
    let l = u(&a[p + 1]) as usize;
    let dir = tmpdir();
    let mut g = make_state(&dir, &sh);
    let mut ff = open!(dir, 8).unwrap();
    let mut ok = ff.truncate(t).is_ok() && ff.number() == t + 1;
    let it = new_item(l);
    ok = ok && ff.append(t + 1, &it).is_ok();
    g.items.truncate(t as usize);
    g.items.push(it);
    for i in 1..=g.items.len() {
        match ff.retrieve(i as u64) {
            Ok(Some(v)) if v == g.items[i - 1] => {}
            _ => ok = false,
        }
    }
    drop(ff);
    if ok {
        match open!(dir, 8) {
            Some(mut f2) => {
                ok = f2.number() == g.items.len() as u64 + 1;
                for i in 1..=g.items.len() {
                    match f2.retrieve(i as u64) {
                        Ok(Some(v)) if v == g.items[i - 1] => {}
                        _ => ok = false,
                    }
                }
            }
            None => ok = false,
        }
    }
    let _ = fs::remove_dir_all(&dir);
    if ok { "0".into() } else { "1".into() }
}

pub fn k7(a: &[String]) -> String {
    let (sh, p) = parse_shape(a);
    let l = u(&a[p]) as usize;
    let ms = u(&a[p + 1]);
    let l2 = u(&a[p + 2]) as usize;
    let n = sh.len();
    for cd in 0..=l {
        let dir = tmpdir();
        let mut g = make_state(&dir, &sh);
        let mut ff = open!(dir, ms).unwrap();
        ff.append(n as u64 + 1, &new_item(l)).unwrap();
        drop(ff);
        let head_file = if n == 0 { 0 } else { g.file[n - 1] };
        let fp = dir.join(format!("blk{:06}", head_file + 1));
        fs::OpenOptions::new().write(true).open(&fp).unwrap().set_len(cd as u64).unwrap();
        fs::OpenOptions::new().write(true).open(dir.join("INDEX")).unwrap().set_len(((n + 1) * 12) as u64).unwrap();
        let mut ok = true;
        match open!(dir, ms) {
            Some(mut f2) => {
                ok = f2.number() == n as u64 + 1;
                let it: Vec<u8> = (0..l2).map(|k| 0xC0u8 + k as u8).collect();
                ok = ok && f2.append(n as u64 + 1, &it).is_ok();
                g.items.push(it);
                for i in 1..=g.items.len() {
                    match f2.retrieve(i as u64) {
                        Ok(Some(v)) if v == g.items[i - 1] => {}
                        _ => ok = false,
                    }
                }
            }
            None => ok = false,
        }
        let _ = fs::remove_dir_all(&dir);
        if !ok {
            return format!("1 {cd}");
        }
    }
    "0".into()
}

pub fn k8(a: &[String]) -> String {
    let (sh, p) = parse_shape(a);
    let l = u(&a[p]) as usize;
    let ms = u(&a[p + 1]);
    let l2 = u(&a[p + 2]) as usize;
    let n = sh.len();
    let head_bytes = if n == 0 { 0 } else { sh.iter().fold(0u64, |acc, (l, nf)| if *nf { *l as u64 } else { acc + *l as u64 }) };
    let rollover = head_bytes + l as u64 > ms;
    let pre_data = if rollover { 0 } else { head_bytes as usize };
    let post_data = pre_data + l;
    let pre_idx = (n + 1) * 12;
    for cd in pre_data..=post_data {
        for ci in pre_idx..=(pre_idx + 12) {
            let dir = tmpdir();
            let mut g = make_state(&dir, &sh);
            let mut ff = open!(dir, ms).unwrap();
            let it = new_item(l);
            ff.append(n as u64 + 1, &it).unwrap();
            g.items.push(it);
            drop(ff);
            let head_file = if n == 0 { 0 } else { g.file[n - 1] };
            let new_file = if rollover { head_file + 1 } else { head_file };
            let fp = dir.join(format!("blk{new_file:06}"));
            fs::OpenOptions::new().write(true).open(&fp).unwrap().set_len(cd as u64).unwrap();
            fs::OpenOptions::new().write(true).open(dir.join("INDEX")).unwrap().set_len(ci as u64).unwrap();
            let mut ok = true;
            match open!(dir, ms) {
                Some(mut f2) => {
                    let num = f2.number();
                    if num < 1 || (num - 1) as usize > n + 1 || ((num - 1) as usize) < n {
                        ok = false;
                    } else {
                        let m = (num - 1) as usize;
                        g.items.truncate(m);
                        let it2: Vec<u8> = (0..l2).map(|k| 0xC0u8 + k as u8).collect();
                        ok = f2.append(m as u64 + 1, &it2).is_ok();
                        g.items.push(it2);
                        for i in 1..=g.items.len() {
                            match f2.retrieve(i as u64) {
                                Ok(Some(v)) if v == g.items[i - 1] => {}
                                _ => ok = false,
                            }
                        }
                        // and once more after a clean re-open
                        drop(f2);
                        match open!(dir, ms) {
                            Some(mut f3) => {
                                for i in 1..=g.items.len() {
                                    match f3.retrieve(i as u64) {
                                        Ok(Some(v)) if v == g.items[i - 1] => {}
                                        _ => ok = false,
                                    }
                                }
                            }
                            None => ok = false,
                        }
                    }
                }
                None => ok = false,
            }
            let _ = fs::remove_dir_all(&dir);
            if !ok {
                return format!("1 {cd} {ci}");
            }
        }
    }
    "0".into()
}
