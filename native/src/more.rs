//! further replay entry points (added as obligations grow)
use ckb_chain_spec::consensus::ConsensusBuilder;
use ckb_types::core::Capacity;

fn u(s: &str) -> u64 {
    s.parse::<u64>().unwrap_or_else(|_| panic!("bad u64 {s}"))
}

pub fn run(key: &str, a: &[String]) -> String {
    match key {
        "consensus_primary_epoch_reward" => {
            let c = ConsensusBuilder::default()
                .initial_primary_epoch_reward(Capacity::shannons(u(&a[0])))
                .primary_epoch_reward_halving_interval(u(&a[1]))
                .build();
            format!("{}", c.primary_epoch_reward(u(&a[2])).as_u64())
        }
        "since_extract_metric" => {
            use ckb_verification::{Since, SinceMetric};
            match Since(u(&a[0])).extract_metric() {
                None => "0 0 0".to_string(),
                Some(SinceMetric::BlockNumber(n)) => format!("1 0 {n}"),
                Some(SinceMetric::EpochNumberWithFraction(e)) => format!("1 1 {}", e.full_value()),
                Some(SinceMetric::Timestamp(t)) => format!("1 2 {t}"),
            }
        }
        "inibd_count_extra_fields" => {
            // bytes of an InIBD message accepted by from_compatible_slice; then the generated accessor
            use ckb_types::{packed, prelude::*};
            let bytes: Vec<u8> = a.iter().map(|x| u(x) as u8).collect();
            match packed::InIBDReader::from_compatible_slice(&bytes) {
                Ok(r) => format!("1 {}", r.count_extra_fields()),
                Err(_) => "0 0".to_string(),
            }
        }
        "compact_block_extension" => {
            // a default CompactBlock re-encoded with ONE extra field holding the given raw bytes
            use ckb_types::{packed, prelude::*};
            let extra: Vec<u8> = a.iter().map(|x| u(x) as u8).collect();
            let base = packed::CompactBlock::default();
            let s = base.as_slice();
            let n = packed::CompactBlock::FIELD_COUNT;
            let mut offsets: Vec<u32> = (0..n).map(|i| u32::from_le_bytes([s[4 + 4 * i], s[5 + 4 * i], s[6 + 4 * i], s[7 + 4 * i]])).collect();
            let old_header = 4 * (n + 1);
            let body = &s[old_header..];
            for o in offsets.iter_mut() {
                *o += 4;
            }
            let extra_off = (s.len() + 4) as u32;
            let total = (s.len() + 4 + extra.len()) as u32;
            let mut out = total.to_le_bytes().to_vec();
            for o in &offsets {
                out.extend_from_slice(&o.to_le_bytes());
            }
            out.extend_from_slice(&extra_off.to_le_bytes());
            out.extend_from_slice(body);
            out.extend_from_slice(&extra);
            match packed::CompactBlockReader::from_compatible_slice(&out) {
                Ok(r) => {
                    let cnt = r.count_extra_fields();
                    let e = r.to_entity().extension();
                    format!("1 {} {}", cnt, e.map(|b| b.len()).unwrap_or(0))
                }
                Err(_) => "0 0 0".to_string(),
            }
        }
        "mol_strict" => {
            let ty = &a[0];
            let bytes: Vec<u8> = a[1..].iter().map(|x| u(x) as u8).collect();
            format!("{}", crate::molwalk::strict(ty, &bytes))
        }
        "mol_walk" => {
            // args: type index is not used; the type NAME comes as a string argument, then the bytes
            let ty = &a[0];
            let bytes: Vec<u8> = a[1..].iter().map(|x| u(x) as u8).collect();
            format!("{}", crate::molwalk::walk(ty, &bytes))
        }
        "since_flags" => {
            use ckb_verification::Since;
            let s = Since(u(&a[0]));
            format!("{} {} {}", s.is_absolute() as u8, s.is_relative() as u8, s.flags_is_valid() as u8)
        }
        "proposal_finalize" => {
            // n close far : a table with one distinct id per height 1..=n+2 (and a stale row at height 0 is impossible: heights start at 1),
            // origin view = set of the ids at heights n-far-1..=n-close+1 (the previous window, wider by one on each side);
            // prints: set_ok gap_ok removed_ok rows_ok (each 1 when finalize(n) agrees with the definition)
            use ckb_chain_spec::consensus::ProposalWindow;
            use ckb_proposal_table::{ProposalTable, ProposalView};
            use ckb_types::packed::ProposalShortId;
            use std::collections::HashSet;
            let (n, c, f) = (u(&a[0]), u(&a[1]), u(&a[2]));
            let id = |h: u64| ProposalShortId::new([(h & 255) as u8, (h >> 8) as u8, (h >> 16) as u8, (h >> 24) as u8, 0, 0, 0, 0, 0, 7]);
            let top = n.saturating_add(2).min(n.saturating_add(0).max(1) + 2);
            let lo_h = n.saturating_sub(f + 3).max(1);
            let mut table = ProposalTable::new(ProposalWindow(c, f));
            for h in lo_h..=top {
                table.insert(h, [id(h)].into_iter().collect());
            }
            let origin_set: HashSet<ProposalShortId> = (n.saturating_sub(f + 1).max(1)..=n.saturating_sub(c).saturating_add(1).min(top)).map(id).collect();
            let origin = ProposalView::new(HashSet::new(), origin_set.clone());
            let (removed, view) = table.finalize(&origin, n);
            let cand = n + 1;
            let want_set: HashSet<ProposalShortId> = (lo_h..=top).filter(|h| *h <= n && cand - h >= c && cand - h <= f).map(id).collect();
            let want_gap: HashSet<ProposalShortId> = (lo_h..=top).filter(|h| *h <= n && cand - h < c).map(id).collect();
            let want_removed: HashSet<ProposalShortId> = origin_set.difference(&want_set).cloned().collect();
            let rows_ok = table.all().keys().all(|h| *h + f >= cand || *h <= 1) && (lo_h..=top).filter(|h| *h + f >= cand).all(|h| table.all().contains_key(&h));
            format!("{} {} {} {}", (view.set() == &want_set) as u8, (view.gap() == &want_gap) as u8, (removed == want_removed) as u8, rows_ok as u8)
        }
        "resolve_tx" => {
            // i0 i1 st0 st1 seen0 seen1 header_valid : a transaction with two inputs (out points derived from the ids i0,i1; equal ids =
            // the same out point) and one header dep; provider status per input (0 live, 1 dead, 2 unknown; equal ids share st0),
            // `seenK` = the out point was already spent earlier in the batch. prints: is_err error_kind(0 Dead,1 Unknown,4 InvalidHeader..) added
            use ckb_types::core::cell::{CellMetaBuilder, CellProvider, CellStatus, HeaderChecker, resolve_transaction};
            use ckb_types::core::error::OutPointError;
            use ckb_types::core::TransactionBuilder;
            use ckb_types::{bytes::Bytes, packed, prelude::*};
            use std::collections::HashSet;
            let (i0, i1, st0, st1, s0, s1, hv) = (u(&a[0]), u(&a[1]), u(&a[2]), u(&a[3]), u(&a[4]), u(&a[5]), u(&a[6]));
            let op = |i: u64| {
                let mut h = [0u8; 32];
                h[..8].copy_from_slice(&i.to_le_bytes());
                h[31] = 1;
                packed::OutPoint::new(packed::Byte32::from_slice(&h).unwrap(), 0)
            };
            struct P(Vec<(packed::OutPoint, u64)>);
            impl CellProvider for P {
                fn cell(&self, o: &packed::OutPoint, _e: bool) -> CellStatus {
                    for (p, st) in &self.0 {
                        if p == o {
                            return match st {
                                0 => CellStatus::live_cell(CellMetaBuilder::from_cell_output(packed::CellOutput::default(), Bytes::new()).out_point(o.clone()).build()),
                                1 => CellStatus::Dead,
                                _ => CellStatus::Unknown,
                            };
                        }
                    }
                    CellStatus::Unknown
                }
            }
            struct H(bool);
            impl HeaderChecker for H {
                fn check_valid(&self, h: &packed::Byte32) -> Result<(), OutPointError> {
                    if self.0 { Ok(()) } else { Err(OutPointError::InvalidHeader(h.clone())) }
                }
            }
            let tx = TransactionBuilder::default()
                .input(packed::CellInput::new(op(i0), 0))
                .input(packed::CellInput::new(op(i1), 0))
                .header_dep(packed::Byte32::default())
                .build();
            let mut seen: HashSet<packed::OutPoint> = HashSet::new();
            if s0 != 0 { seen.insert(op(i0)); }
            if s1 != 0 { seen.insert(op(i1)); }
            let before = seen.len();
            let prov = P(vec![(op(i0), st0), (op(i1), if i0 == i1 { st0 } else { st1 })]);
            let r = resolve_transaction(tx, &mut seen, &prov, &H(hv != 0));
            let added = seen.len() - before;
            match r {
                Ok(_) => format!("0 99 {added}"),
                Err(e) => {
                    let k = match e {
                        OutPointError::Dead(_) => 0,
                        OutPointError::Unknown(_) => 1,
                        OutPointError::OutOfOrder(_) => 2,
                        OutPointError::InvalidDepGroup(_) => 3,
                        OutPointError::InvalidHeader(_) => 4,
                        _ => 5,
                    };
                    format!("1 {k} {added}")
                }
            }
        }
        "difficulty_to_compact" => {
            use ckb_types::{U256, utilities::difficulty_to_compact};
            let mut b = [0u8; 32];
            for i in 0..4 {
                b[8 * i..8 * i + 8].copy_from_slice(&u(&a[i]).to_le_bytes());
            }
            format!("{}", difficulty_to_compact(U256::from_little_endian(&b).unwrap()))
        }
        "compact_to_difficulty" => {
            use ckb_types::utilities::compact_to_difficulty;
            let d = compact_to_difficulty(u(&a[0]) as u32);
            let mut b = [0u8; 32];
            d.into_little_endian(&mut b).unwrap();
            let l: Vec<String> = (0..4).map(|i| u64::from_le_bytes(b[8 * i..8 * i + 8].try_into().unwrap()).to_string()).collect();
            l.join(" ")
        }
        "freezer_k1" => crate::freezer::k1(a),
        "freezer_k5" => crate::freezer::k5(a),
        "freezer_k2" => crate::freezer::k2(a),
        "freezer_k3" => crate::freezer::k3(a),
        "freezer_k6" => crate::freezer::k6(a),
        "freezer_k7" => crate::freezer::k7(a),
        "freezer_k8" => crate::freezer::k8(a),
        _ => panic!("unknown key {key}"),
    }
}
