//! further replay entry points (added as obligations grow)
pub fn run(key: &str, _a: &[String]) -> String {
    panic!("unknown key {key}")
}
