//! further replay entry points (added as obligations grow)
use ckb_chain_spec::consensus::ConsensusBuilder;
use ckb_types::core::Capacity;

fn u(s: &str) -> u64 {
    s.parse::<u64>().unwrap_or_else(|_| panic!("bad u64 {s}"))
}

pub fn run(key: &str, a: &[String]) -> String {
    match key {
        "consensus_primary_epoch_reward" => {
            let c = ConsensusBuilder::default()
                .initial_primary_epoch_reward(Capacity::shannons(u(&a[0])))
                .primary_epoch_reward_halving_interval(u(&a[1]))
                .build();
            format!("{}", c.primary_epoch_reward(u(&a[2])).as_u64())
        }
        "since_extract_metric" => {
            use ckb_verification::{Since, SinceMetric};
            match Since(u(&a[0])).extract_metric() {
                None => "0 0 0".to_string(),
                Some(SinceMetric::BlockNumber(n)) => format!("1 0 {n}"),
                Some(SinceMetric::EpochNumberWithFraction(e)) => format!("1 1 {}", e.full_value()),
                Some(SinceMetric::Timestamp(t)) => format!("1 2 {t}"),
            }
        }
        "inibd_count_extra_fields" => {
            // bytes of an InIBD message accepted by from_compatible_slice; then the generated accessor
            use ckb_types::{packed, prelude::*};
            let bytes: Vec<u8> = a.iter().map(|x| u(x) as u8).collect();
            match packed::InIBDReader::from_compatible_slice(&bytes) {
                Ok(r) => format!("1 {}", r.count_extra_fields()),
                Err(_) => "0 0".to_string(),
            }
        }
        "compact_block_extension" => {
            // a default CompactBlock re-encoded with ONE extra field holding the given raw bytes
            use ckb_types::{packed, prelude::*};
            let extra: Vec<u8> = a.iter().map(|x| u(x) as u8).collect();
            let base = packed::CompactBlock::default();
            let s = base.as_slice();
            let n = packed::CompactBlock::FIELD_COUNT;
            let mut offsets: Vec<u32> = (0..n).map(|i| u32::from_le_bytes([s[4 + 4 * i], s[5 + 4 * i], s[6 + 4 * i], s[7 + 4 * i]])).collect();
            let old_header = 4 * (n + 1);
            let body = &s[old_header..];
            for o in offsets.iter_mut() {
                *o += 4;
            }
            let extra_off = (s.len() + 4) as u32;
            let total = (s.len() + 4 + extra.len()) as u32;
            let mut out = total.to_le_bytes().to_vec();
            for o in &offsets {
                out.extend_from_slice(&o.to_le_bytes());
            }
            out.extend_from_slice(&extra_off.to_le_bytes());
            out.extend_from_slice(body);
            out.extend_from_slice(&extra);
            match packed::CompactBlockReader::from_compatible_slice(&out) {
                Ok(r) => {
                    let cnt = r.count_extra_fields();
                    let e = r.to_entity().extension();
                    format!("1 {} {}", cnt, e.map(|b| b.len()).unwrap_or(0))
                }
                Err(_) => "0 0 0".to_string(),
            }
        }
        "mol_strict" => {
            let ty = &a[0];
            let bytes: Vec<u8> = a[1..].iter().map(|x| u(x) as u8).collect();
            format!("{}", crate::molwalk::strict(ty, &bytes))
        }
        "mol_walk" => {
            // args: type index is not used; the type NAME comes as a string argument, then the bytes
            let ty = &a[0];
            let bytes: Vec<u8> = a[1..].iter().map(|x| u(x) as u8).collect();
            format!("{}", crate::molwalk::walk(ty, &bytes))
        }
        "since_flags" => {
            use ckb_verification::Since;
            let s = Since(u(&a[0]));
            format!("{} {} {}", s.is_absolute() as u8, s.is_relative() as u8, s.flags_is_valid() as u8)
        }
        "freezer_k1" => crate::freezer::k1(a),
        "freezer_k5" => crate::freezer::k5(a),
        "freezer_k2" => crate::freezer::k2(a),
        "freezer_k3" => crate::freezer::k3(a),
        "freezer_k6" => crate::freezer::k6(a),
        "freezer_k7" => crate::freezer::k7(a),
        _ => panic!("unknown key {key}"),
    }
}
