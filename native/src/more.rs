//! further replay entry points (added as obligations grow)
use ckb_chain_spec::consensus::ConsensusBuilder;
use ckb_types::core::Capacity;

fn u(s: &str) -> u64 {
    s.parse::<u64>().unwrap_or_else(|_| panic!("bad u64 {s}"))
}

pub fn run(key: &str, a: &[String]) -> String {
    match key {
        "consensus_primary_epoch_reward" => {
            let c = ConsensusBuilder::default()
                .initial_primary_epoch_reward(Capacity::shannons(u(&a[0])))
                .primary_epoch_reward_halving_interval(u(&a[1]))
                .build();
            format!("{}", c.primary_epoch_reward(u(&a[2])).as_u64())
        }
        "since_extract_metric" => {
            use ckb_verification::{Since, SinceMetric};
            match Since(u(&a[0])).extract_metric() {
                None => "0 0 0".to_string(),
                Some(SinceMetric::BlockNumber(n)) => format!("1 0 {n}"),
                Some(SinceMetric::EpochNumberWithFraction(e)) => format!("1 1 {}", e.full_value()),
                Some(SinceMetric::Timestamp(t)) => format!("1 2 {t}"),
            }
        }
        "since_flags" => {
            use ckb_verification::Since;
            let s = Since(u(&a[0]));
            format!("{} {} {}", s.is_absolute() as u8, s.is_relative() as u8, s.flags_is_valid() as u8)
        }
        "freezer_k1" => crate::freezer::k1(a),
        "freezer_k5" => crate::freezer::k5(a),
        "freezer_k2" => crate::freezer::k2(a),
        "freezer_k3" => crate::freezer::k3(a),
        "freezer_k6" => crate::freezer::k6(a),
        "freezer_k7" => crate::freezer::k7(a),
        _ => panic!("unknown key {key}"),
    }
}
