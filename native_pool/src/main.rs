//! Native replay driver for tx-pool kernels. Usage: batch mode only — each stdin line is `key args...`;
//! output one line per call: `ok <ints...>` | `panic`.
#![allow(dead_code, unused_imports)]
use ckb_types::core::{Capacity, FeeRate, TransactionBuilder, cell::ResolvedTransaction};
use std::panic;
use std::sync::Arc;

mod component {
    #[path = "/repo/tx-pool/src/component/sort_key.rs"]
    pub mod sort_key;
    #[path = "/repo/tx-pool/src/component/entry.rs"]
    pub mod entry;
}
use component::entry::TxEntry;
use component::sort_key::{AncestorsScoreSortKey, EvictKey};

fn u(s: &str) -> u64 {
    s.parse::<u64>().unwrap_or_else(|_| panic!("bad u64 {s}"))
}

// order: cycles size fee a_size a_fee a_cycles a_count d_fee d_size d_cycles d_count timestamp
fn entry(a: &[String]) -> TxEntry {
    let tx = TransactionBuilder::default().build();
    let rtx = Arc::new(ResolvedTransaction::dummy_resolve(tx));
    let mut e = TxEntry::new_with_timestamp(rtx, u(&a[0]), Capacity::shannons(u(&a[2])), u(&a[1]) as usize, u(&a[11]));
    e.ancestors_size = u(&a[3]) as usize;
    e.ancestors_fee = Capacity::shannons(u(&a[4]));
    e.ancestors_cycles = u(&a[5]);
    e.ancestors_count = u(&a[6]) as usize;
    e.descendants_fee = Capacity::shannons(u(&a[7]));
    e.descendants_size = u(&a[8]) as usize;
    e.descendants_cycles = u(&a[9]);
    e.descendants_count = u(&a[10]) as usize;
    e
}

fn show(e: &TxEntry) -> String {
    format!(
        "{} {} {} {} {} {} {} {} {} {} {} {}",
        e.cycles, e.size, e.fee.as_u64(), e.ancestors_size, e.ancestors_fee.as_u64(), e.ancestors_cycles, e.ancestors_count,
        e.descendants_fee.as_u64(), e.descendants_size, e.descendants_cycles, e.descendants_count, e.timestamp
    )
}

fn key(a: &[String]) -> AncestorsScoreSortKey {
    AncestorsScoreSortKey { fee: Capacity::shannons(u(&a[0])), weight: u(&a[1]), ancestors_fee: Capacity::shannons(u(&a[2])), ancestors_weight: u(&a[3]) }
}

fn ekey(a: &[String]) -> EvictKey {
    EvictKey { fee_rate: FeeRate::from_u64(u(&a[0])), timestamp: u(&a[1]), descendants_count: u(&a[2]) as usize }
}

fn run(k: &str, a: &[String]) -> String {
    match k {
        "entry_step" => {
            // op(0 add,1 sub) side(0 descendant,1 ancestor) me[12] other[12]
            let mut me = entry(&a[2..14]);
            let ot = entry(&a[14..26]);
            match (u(&a[0]), u(&a[1])) {
                (0, 0) => me.add_descendant_weight(&ot),
                (1, 0) => me.sub_descendant_weight(&ot),
                (0, 1) => me.add_ancestor_weight(&ot),
                _ => me.sub_ancestor_weight(&ot),
            }
            show(&me)
        }
        "entry_reset" => {
            let mut me = entry(&a[0..12]);
            me.reset_statistic_state();
            show(&me)
        }
        "entry_new" => {
            // cycles fee size ts
            let tx = TransactionBuilder::default().build();
            let rtx = Arc::new(ResolvedTransaction::dummy_resolve(tx));
            show(&TxEntry::new_with_timestamp(rtx, u(&a[0]), Capacity::shannons(u(&a[1])), u(&a[2]) as usize, u(&a[3])))
        }
        "score_min_pair" => {
            let (f, w) = key(&a[0..4]).min_fee_and_weight();
            format!("{} {}", f.as_u64(), w)
        }
        "score_cmp" => format!("{}", key(&a[0..4]).cmp(&key(&a[4..8])) as i8),
        "evict_cmp" => format!("{}", ekey(&a[0..3]).cmp(&ekey(&a[3..6])) as i8),
        "fee_rate_calculate" => format!("{}", FeeRate::calculate(Capacity::shannons(u(&a[0])), u(&a[1])).as_u64()),
        "fee_rate_fee" => format!("{}", FeeRate::from_u64(u(&a[0])).fee(u(&a[1])).as_u64()),
        "entry_to_info" => {
            let i = entry(&a[0..12]).to_info();
            format!("{} {} {} {} {} {} {} {} {}", i.cycles, i.size, i.fee.as_u64(), i.ancestors_size, i.ancestors_cycles, i.descendants_size, i.descendants_cycles, i.ancestors_count, i.timestamp)
        }
        _ => panic!("unknown key {k}"),
    }
}

fn main() {
    use std::io::BufRead;
    panic::set_hook(Box::new(|_| {}));
    let args: Vec<String> = std::env::args().skip(1).collect();
    if !args.is_empty() {
        match panic::catch_unwind(|| run(&args[0], &args[1..])) {
            Ok(s) => println!("ok {s}"),
            Err(_) => println!("panic"),
        }
        return;
    }
    for line in std::io::stdin().lock().lines() {
        let line = line.unwrap();
        let parts: Vec<String> = line.split_whitespace().map(|s| s.to_string()).collect();
        if parts.is_empty() {
            continue;
        }
        match panic::catch_unwind(|| run(&parts[0], &parts[1..])) {
            Ok(s) => println!("ok {s}"),
            Err(_) => println!("panic"),
        }
    }
}
