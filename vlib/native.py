"""Native replay: run the real /repo functions (ordinary build, repository toolchain) on concrete inputs."""
from __future__ import annotations
import os
import shutil
import subprocess
import time
from mir2smt import terms as T

VERIF = os.environ.get("VERIF_DIR", "/verif")
WORK = os.environ.get("VERIF_WORK", "/verif/work")
REPO = os.environ.get("VERIF_REPO", "/repo")

MASK = {64: (1 << 64) - 1, 32: (1 << 32) - 1, 8: 255, 16: 65535, 128: (1 << 128) - 1}
FUNS = {}
for _b in (8, 16, 32, 64, 128):
    FUNS[f"bvor{_b}"] = lambda a, b: a | b
    FUNS[f"bvand{_b}"] = lambda a, b: a & b
    FUNS[f"bvxor{_b}"] = lambda a, b: a ^ b
    # signed variants: Python ints already behave as infinite two's complement
    FUNS[f"bvor{_b}s"] = lambda a, b: a | b
    FUNS[f"bvand{_b}s"] = lambda a, b: a & b
    FUNS[f"bvxor{_b}s"] = lambda a, b: a ^ b


class Native:
    def __init__(self, log_dir, crate="native", binname="vnative"):
        self.log_dir = log_dir
        self.crate = crate
        self.binname = binname
        self.bin = None
        self.build_error = None
        self.calls = 0

    def ensure(self):
        if self.bin or self.build_error:
            return
        d = os.path.join(VERIF, self.crate)
        try:
            shutil.copyfile(os.path.join(REPO, "Cargo.lock"), os.path.join(d, "Cargo.lock"))
        except OSError:
            pass
        env = dict(os.environ)
        env["CARGO_NET_OFFLINE"] = "true"
        env.pop("RUSTFLAGS", None)
        tdir = os.path.join(WORK, self.crate.replace("_", "-") + "-target")
        p = subprocess.run(["cargo", "build", "--offline", "--target-dir", tdir], cwd=d, env=env, capture_output=True, text=True)
        open(os.path.join(self.log_dir, self.crate + "-build.log"), "w").write(p.stdout + p.stderr)
        if p.returncode != 0:
            self.build_error = (p.stdout + p.stderr)[-2000:]
        else:
            self.bin = os.path.join(tdir, "debug", self.binname)

    def call(self, key, args):
        return self.batch([(key, args)])[0]

    def batch(self, calls):
        self.ensure()
        if not self.bin:
            raise RuntimeError("native driver build failed: " + str(self.build_error))
        text = "\n".join(k + " " + " ".join(a if isinstance(a, str) else str(int(a)) for a in args) for k, args in calls) + "\n"
        p = subprocess.run([self.bin], input=text, capture_output=True, text=True, timeout=120)
        lines = [l.strip() for l in p.stdout.split("\n") if l.strip()]
        if len(lines) != len(calls):
            raise RuntimeError(f"native driver returned {len(lines)} lines for {len(calls)} calls: {p.stderr[-500:]}")
        out = []
        for l in lines:
            self.calls += 1
            if l == "panic":
                out.append("panic")
            else:
                out.append([int(x) for x in l.split()[1:]])
        return out


def ev(t, model):
    funs = dict(FUNS)
    for k, v in (model or {}).items():
        if isinstance(v, dict):
            funs[k] = (lambda d: (lambda *a: (lambda key: d.get(key, d.get(str(key), 0)))(a[0] if len(a) == 1 else str(tuple(a)))))(v)
    return T.evaluate(t, _Default(model), funs)


class _Default(dict):
    def __init__(self, m):
        super().__init__(m or {})

    def __missing__(self, k):
        return 0


def replay_model(sess, native, r):
    """r: failed prove record with a model. Compare every registered native function of the query's context against
    the encoding under the model, then re-evaluate the goal concretely."""
    model = r.get("model") or {}
    calls = []
    if r.get("replay_native"):
        # molecule obligations: the counterexample is a byte string; run the real decoder + every accessor on it
        kind, ty = r["replay_native"][:2]
        n = int(model.get("len", 0))
        buf = model.get("buf", {}) if isinstance(model.get("buf"), dict) else {}
        if n > 192:
            return {"status": "input-longer-than-extracted-bytes", "calls": []}
        args = [ty] + [int(buf.get(i, 0)) for i in range(n)]
        got = native.call(kind, args)
        calls.append({"key": kind, "args": args, "native": got})
        if kind == "mol_strict":
            # the real strict decoder's verdict vs the fully expanded canonical-form specification evaluated on these bytes
            from obligations import molecule_m as MM
            spec = MM.canon(ty, "buf", 0, n, 5, True)
            want = bool(ev(spec, {"buf": {i: args[1 + i] for i in range(n)}}))
            accepted = (got == [1])
            if got == "panic":
                return {"status": "reproduced", "kind": "native: strict decoder panics", "calls": calls}
            if accepted != want:
                return {"status": "reproduced", "kind": f"native: from_slice accepted={accepted} but canonical={want}", "calls": calls}
            return {"status": "not-reproduced-natively", "calls": calls}
        if got == "panic":
            return {"status": "reproduced", "kind": "native: real decoder + accessors panic on these bytes", "calls": calls}
        return {"status": "not-reproduced-natively", "calls": calls, "note": "verdict differs from the real code on this input"}
    try:
        for reg in r.get("natives", []):
            args = [int(ev(a, model)) for a in reg["args"]]
            pan = bool(ev(reg["panic"], model)) if reg.get("panic") is not None else False
            outs = [int(ev(o, model)) for o in reg["outs"]] if not pan else None
            pre = bool(ev(reg["pre"], model)) if reg.get("pre") is not None else True
            if not pre:
                continue
            got = native.call(reg["key"], args)
            enc = "panic" if pan else outs
            calls.append({"key": reg["key"], "args": args, "native": got, "encoding": enc})
            if got != enc:
                if reg.get("oracle"):
                    return {"status": "reproduced", "kind": "native reference check: the real function disagrees with the definition on this scenario", "calls": calls}
                return {"status": "encoding-mismatch", "calls": calls}
        assum = all(bool(ev(a, model)) for a in r.get("assumptions_terms", []))
        side = all(bool(ev(a, model)) for a in r.get("side_terms", []))
        goal = bool(ev(r["goal_term"], model))
    except Exception as e:
        return {"status": "replay-error", "why": repr(e), "calls": calls}
    if not (assum and side):
        return {"status": "model-does-not-satisfy-assumptions", "calls": calls}
    if goal:
        return {"status": "goal-holds-concretely", "calls": calls}
    if not calls:
        return {"status": "reproduced", "kind": "concrete re-evaluation of the encoding only (no public native entry point)", "calls": [], "goal_value": goal}
    return {"status": "reproduced", "kind": "native", "calls": calls, "goal_value": goal}
