"""Check runner: decides one property by running its engine-M obligations and engine-K harnesses,
replays counterexamples natively, writes evidence, prints VIOLATION / KNOWN-FINDING lines.

exit 0: every obligation discharged (or only known findings); exit 1: a replayed violation;
exit 2: inconclusive / broken (timeout, solver error, non-reproducing counterexample, vacuous harness).
"""
from __future__ import annotations
import importlib
import json
import os
import subprocess
import sys
import time
import traceback
import hashlib
import random

VERIF = os.environ.get("VERIF_DIR", "/verif")
WORK = os.environ.get("VERIF_WORK", "/verif/work")
REPO = os.environ.get("VERIF_REPO", "/repo")
sys.path.insert(0, VERIF)

from mir2smt import terms as T           # noqa: E402
from mir2smt.ob import Session, Inconclusive   # noqa: E402
from mir2smt.dump import file_hash, tree_hash  # noqa: E402
from vlib import kani as K               # noqa: E402
from vlib import native as N             # noqa: E402


def load_known():
    """known-findings.txt: lines `finding: property=<id> key=<obligation/query or harness> <text>` and
    `fixed: property=<id> <commit> <text>`"""
    out = []
    p = os.path.join(VERIF, "known-findings.txt")
    if os.path.exists(p):
        for line in open(p):
            line = line.strip()
            if line.startswith("finding:"):
                parts = line[len("finding:"):].strip().split(None, 2)
                d = {"raw": line}
                for x in parts[:2]:
                    if "=" in x:
                        k, v = x.split("=", 1)
                        d[k] = v
                d["text"] = parts[2] if len(parts) > 2 else ""
                out.append(d)
    return out


def main(argv):
    import argparse
    ap = argparse.ArgumentParser()
    ap.add_argument("prop")
    ap.add_argument("--tier", default=os.environ.get("VERIF_TIER", "quick"))
    ap.add_argument("--replay")
    ap.add_argument("--only", help="comma separated obligation/harness name filter")
    a = ap.parse_args(argv)
    pid = a.prop.upper()
    tier = a.tier if a.tier in ("quick", "thorough") else "quick"
    seed = int(os.environ.get("VERIF_SEED", "0") or 0)
    if a.replay:
        return replay_file(a.replay)
    t0 = time.time()
    mod = importlib.import_module("obligations." + pid.lower())
    log_dir = os.path.join(WORK, "logs", pid)
    os.makedirs(log_dir, exist_ok=True)
    os.makedirs(os.path.join(VERIF, "evidence"), exist_ok=True)
    only = set(a.only.split(",")) if a.only else None

    problems = []       # inconclusive items
    violations = []     # dicts
    mres = []
    kres = {}
    sess = None
    native = None

    # ---------------------------------------------------------------- engine M
    obs = list(getattr(mod, "OBLIGATIONS", []))
    if tier == "thorough":
        obs += list(getattr(mod, "OBLIGATIONS_THOROUGH", []))
    if only:
        obs = [o for o in obs if o.__name__ in only or o.__name__.split("_")[0] in only]
    rnd = random.Random(seed)
    rnd.shuffle(obs)
    m_time = 0.0
    if obs:
        tm = time.time()
        try:
            sess = Session(mod.CRATES, timeout_s=getattr(mod, "TIMEOUT_QUICK", 60) if tier == "quick" else getattr(mod, "TIMEOUT_THOROUGH", 600))
        except Exception as e:
            problems.append({"what": "mir-dump", "why": str(e)})
            sess = None
        if sess is not None:
            sess.tier = tier
            ncr = getattr(mod, "NATIVE_CRATE", ("native", "vnative"))
            native = N.Native(log_dir, ncr[0], ncr[1])
            sess.native_driver = native
            for ob in obs:
                n0 = len(sess.results)
                try:
                    ob(sess)
                except Inconclusive as e:
                    problems.append({"what": ob.__name__, "why": "inconclusive: " + str(e)})
                except Exception as e:
                    problems.append({"what": ob.__name__, "why": "exception: " + repr(e), "trace": traceback.format_exc()[-1500:]})
                for r in sess.results[n0:]:
                    r["fn"] = ob.__name__
            mres = sess.results
        m_time = time.time() - tm

    # classify M results
    for r in mres:
        if r["ok"]:
            continue
        if r["kind"] == "prove" and r["verdict"] == "sat":
            rep = N.replay_model(sess, native, r) if native else {"status": "no-native"}
            r["replay"] = rep
            if rep["status"] == "reproduced":
                violations.append({"key": f"{r['obligation']}/{r['query']}", "engine": "M", "detail": rep, "model": r["model"], "native_crate": list(getattr(mod, "NATIVE_CRATE", ("native", "vnative"))),
                                   "query": r["query"], "obligation": r["obligation"]})
            else:
                problems.append({"what": f"{r['obligation']}/{r['query']}", "why": f"counterexample did not reproduce natively ({rep['status']}): encoding suspect", "model": r["model"], "replay": rep})
        elif r["kind"] == "witness" and r["verdict"] == "unsat":
            problems.append({"what": f"{r['obligation']}/{r['query']}", "why": "vacuity witness unsatisfiable"})
        else:
            problems.append({"what": f"{r['obligation']}/{r['query']}", "why": f"solver verdict {r['verdict']} {r['solvers']}"})

    # translator validation (concrete inputs through encoding and native code)
    tv = {"cases": 0, "mismatches": []}
    if sess is not None and native is not None and hasattr(mod, "validate"):
        try:
            tv = mod.validate(sess, native)
        except Exception as e:
            problems.append({"what": "translator-validation", "why": repr(e), "trace": traceback.format_exc()[-1500:]})
        for mm in tv.get("mismatches", []):
            problems.append({"what": "translator-validation", "why": f"encoding and native code disagree: {mm}"})

    # ---------------------------------------------------------------- engine K
    k_time = 0.0
    kspec = getattr(mod, "KANI", [])
    kspec = [k for k in kspec if tier in k.get("tiers", ("quick", "thorough"))]
    if only:
        kspec = [k for k in kspec if k["harness"] in only or k.get("id") in only]
    if kspec:
        tk = time.time()
        crates = sorted({k["crate"] for k in kspec})
        feats = tuple(getattr(mod, "KANI_FEATURES", {}).get(tier, ()))
        for c in crates:
            ok, dt, tail = K.build(c, log_dir, feats)
            if not ok:
                problems.append({"what": f"kani-build:{c}", "why": tail[-1500:]})
        jobs = int(os.environ.get("VERIF_JOBS", str(getattr(mod, "KANI_JOBS", 8))))
        from concurrent.futures import ThreadPoolExecutor
        with ThreadPoolExecutor(max_workers=jobs) as ex:
            futs = {}
            for k in kspec:
                to = k.get("timeout_quick", 300) if tier == "quick" else k.get("timeout_thorough", 1800)
                futs[k["harness"]] = ex.submit(K.run_harness, k["crate"], k["harness"], to, log_dir, k.get("mem_gb", 12), k.get("extra", ()),
                                               False, not hasattr(mod, "kani_replay"), feats)
            for k in kspec:
                r = futs[k["harness"]].result()
                r["id"] = k.get("id", k["harness"])
                r["bound"] = k.get("bound", "")
                r["functions"] = k.get("functions", [])
                r["expect"] = k.get("expect", "success")
                r["spec"] = k
                kres[k["harness"]] = r
        k_time = time.time() - tk
        for h, r in kres.items():
            exp = r["expect"]
            if exp == "success":
                if r["verdict"] == "success":
                    continue
                if r["verdict"] == "failed":
                    rep = K_replay(mod, h, r, log_dir)
                    r["replay"] = rep
                    if rep["status"] == "reproduced":
                        violations.append({"key": r["id"], "engine": "K", "detail": rep, "harness": h, "failed_checks": r["failed_checks"]})
                    else:
                        problems.append({"what": r["id"], "why": f"kani counterexample did not reproduce ({rep['status']})", "failed": r["failed_checks"]})
                else:
                    problems.append({"what": r["id"], "why": f"kani verdict {r['verdict']}", "log": r["log"]})
            elif exp == "failed":   # reachability twin: must come back violated
                if r["verdict"] != "failed":
                    problems.append({"what": r["id"], "why": f"reachability twin not violated ({r['verdict']})"})

    # ---------------------------------------------------------------- verdict
    known = [k for k in load_known() if k.get("property") == pid]
    known_hit = []
    new_viol = []
    for v in violations:
        hit = [k for k in known if k.get("key") == v["key"]]
        if hit:
            known_hit.append((v, hit[0]))
        else:
            new_viol.append(v)

    replay_paths = []
    for v in new_viol:
        rp = write_replay(pid, v)
        replay_paths.append(rp)

    wall = time.time() - t0
    ev = build_evidence(pid, tier, seed, mod, sess, mres, kres, tv, problems, violations, known_hit, wall, m_time, k_time)
    evp = os.path.join(VERIF, "evidence", pid + ".json")
    tmp = evp + ".tmp"
    json.dump(ev, open(tmp, "w"), indent=1, default=str)
    os.replace(tmp, evp)

    for v, k in known_hit:
        print(f"KNOWN-FINDING: property={pid} {k.get('key')} {k.get('text')}")
    n_ok_m = sum(1 for r in mres if r["ok"])
    n_ok_k = sum(1 for r in kres.values() if (r["verdict"] == "success" and r["expect"] == "success") or (r["expect"] == "failed" and r["verdict"] == "failed"))
    print(f"[{pid}] tier={tier} M: {n_ok_m}/{len(mres)} queries ok, K: {n_ok_k}/{len(kres)} harnesses ok, "
          f"translator-validation cases={tv.get('cases', 0)}, wall={wall:.1f}s")
    if new_viol:
        for v, rp in zip(new_viol, replay_paths):
            print(f"VIOLATION property={pid} replay={rp}")
            print(f"  obligation {v['key']} ({v['engine']}): {json.dumps(v.get('model') or v.get('failed_checks'), default=str)[:400]}")
        return 1
    if problems:
        for p in problems:
            print(f"INCONCLUSIVE property={pid} {p['what']}: {str(p['why'])[:600]}")
        return 2
    return 0


def K_replay(mod, harness, r, log_dir):
    """replay of a Kani counterexample: the generated concrete-playback unit test is run against the real crate
    (natively, no model checker)."""
    pb = r.get("playback")
    hook = getattr(mod, "kani_replay", None)
    if hook is not None:
        try:
            return hook(harness, r, log_dir)
        except Exception as e:
            return {"status": "replay-error", "why": repr(e)}
    if not pb:
        return {"status": "no-playback"}
    return K.playback(r, log_dir)


def write_replay(pid, v):
    d = os.path.join(VERIF, "replay", pid)
    os.makedirs(d, exist_ok=True)
    name = v["key"].replace("/", "_").replace(".", "_")
    p = os.path.join(d, name + ".json")
    json.dump(v, open(p, "w"), indent=1, default=str)
    return p


def replay_file(path):
    v = json.load(open(path))
    det = v.get("detail", {})
    print(json.dumps(v, indent=1)[:4000])
    if v.get("engine") == "M":
        ncr = v.get("native_crate") or ["native", "vnative"]
        nat = N.Native(os.path.join(WORK, "logs"), ncr[0], ncr[1])
        ok = True
        for c in det.get("calls", []):
            out = nat.call(c["key"], c["args"])
            print("native", c["key"], c["args"], "->", out, "(recorded", c["native"], ")")
            ok = ok and (out == c["native"])
        print("goal under native outputs:", det.get("goal_value"))
        return 1 if ok else 2
    if v.get("engine") == "K":
        cmd = det.get("cmd")
        if cmd:
            p = subprocess.run(cmd, shell=True, cwd=det.get("cwd", VERIF))
            return 1 if p.returncode != 0 else 0
    return 2


def build_evidence(pid, tier, seed, mod, sess, mres, kres, tv, problems, violations, known_hit, wall, m_time, k_time):
    level = getattr(mod, "LEVEL", "other")
    n_m = len(mres)
    n_m_ok = sum(1 for r in mres if r["ok"])
    n_k = len(kres)
    n_k_ok = sum(1 for r in kres.values() if (r["verdict"] == "success" and r["expect"] == "success") or (r["expect"] == "failed" and r["verdict"] == "failed"))
    samples = []
    rnd = random.Random(seed)
    ms = [r for r in mres if r["kind"] == "prove"]
    rnd.shuffle(ms)
    for r in ms[:3]:
        samples.append({"engine": "M", "obligation": r["obligation"], "query": r["query"], "verdict": r["verdict"],
                        "solvers": r["solvers"], "smt2": r["smt"][-3000:]})
    ks = list(kres.values())
    rnd.shuffle(ks)
    for r in ks[:3]:
        samples.append({"engine": "K", "harness": r["harness"], "verdict": r["verdict"], "bound": r["bound"],
                        "checks": r.get("checks"), "solver_time_s": r.get("solver_time_s")})
    funcs = {}
    if sess is not None:
        for name in sorted(sess.encoded):
            import re
            m = re.search(r"([\w/\-\.]+\.rs):\d+", name)
            f = m.group(1) if m else None
            funcs[name] = {"file": f, "sha256_16": file_hash(f) if f else None}
    for r in kres.values():
        for f in r.get("functions", []):
            funcs.setdefault(f, {"engine": "K"})
    solver_time = sum(r["time_s"] for r in mres) + (sess.aux_time if sess else 0.0)
    kani_time = sum(r.get("solver_time_s", 0.0) or 0.0 for r in kres.values())
    obligations = n_m + n_k + (sess.aux_queries if sess else 0)
    discharged = n_m_ok + n_k_ok + (sess.aux_queries if sess else 0)
    cov = {
        "explanation": getattr(mod, "EXPLANATION", "") + f" This run: {n_m} SMT queries (engine M: real MIR of /repo translated to integer-theory SMT, cvc5 + z3 5.1) "
                       f"and {n_k} Kani/CBMC harnesses (engine K) over the current working tree; every query quantifies over all values within the stated bounds.",
        "obligations": obligations,
        "discharged": discharged,
        "checker_cmd": "cvc5 --lang smt2 --produce-models ; z3-new -in -smt2 ; cargo kani --harness <h> (CBMC 6.11, CaDiCaL)",
        "trusted_base": getattr(mod, "TRUSTED", []) + ["mir2smt translator and its core/std builtin models", "rustc MIR dump (-Zunpretty=mir, overflow-checks=on, debug-assertions=off)",
                                                      "cvc5 1.0.3, z3 5.1.0", "Kani 0.68 / CBMC 6.11 / CaDiCaL"],
        "evaluations": obligations,
        "distinct_nontrivial": len({(r["obligation"], r["query"]) for r in mres if r["kind"] == "prove"}) + n_k,
        "rule": "one evaluation = one solver query or one Kani harness; distinct = distinct (obligation, query) names; witnesses (vacuity checks) are not counted as non-trivial",
        "samples": samples,
        "functions_encoded": funcs,
        "mir_tree_hash": tree_hash(),
        "environment_symbols": sorted(sess.env_syms) if sess else [],
        "bounds": getattr(mod, "BOUNDS", {}),
        "queries": [{k: r[k] for k in ("obligation", "query", "kind", "expect", "verdict", "solvers", "time_s", "ok")} for r in mres],
        "harnesses": [{k: r.get(k) for k in ("id", "harness", "verdict", "expect", "bound", "checks", "covers", "time_s", "solver_time_s", "failed_checks")} for r in kres.values()],
        "solver_time_s": round(solver_time, 2),
        "kani_solver_time_s": round(kani_time, 2),
        "engine_M_wall_s": round(m_time, 1),
        "engine_K_wall_s": round(k_time, 1),
        "translator_validation": {"cases": tv.get("cases", 0), "mismatches": len(tv.get("mismatches", []))},
        "inconclusive": problems,
        "known_findings_hit": [k.get("raw") for _, k in known_hit],
        "mir_dumps": sess.dump_log if sess else [],
    }
    return {
        "property_id": pid, "tier": tier, "seed": seed, "level": level, "coverage": cov,
        "assumptions": getattr(mod, "ASSUMPTIONS", []),
        "wall_s": round(wall, 1),
        "violations": len(violations) - len(known_hit),
    }


if __name__ == "__main__":
    sys.exit(main(sys.argv[1:]))
