"""Engine K: run Kani harnesses of a harness crate (path-dependent on /repo) and collect verdicts."""
from __future__ import annotations
import os
import re
import shutil
import subprocess
import time
from concurrent.futures import ThreadPoolExecutor

VERIF = os.environ.get("VERIF_DIR", "/verif")
WORK = os.environ.get("VERIF_WORK", "/verif/work")
REPO = os.environ.get("VERIF_REPO", "/repo")


def prepare(crate):
    """copy /repo/Cargo.lock next to the harness crate so that dependency versions are the repository's"""
    d = os.path.join(VERIF, "kani", crate)
    try:
        shutil.copyfile(os.path.join(REPO, "Cargo.lock"), os.path.join(d, "Cargo.lock"))
    except OSError:
        pass
    return d


def _env():
    env = dict(os.environ)
    env["CARGO_NET_OFFLINE"] = "true"
    env.pop("RUSTFLAGS", None)
    env.pop("RUSTUP_TOOLCHAIN", None)
    return env


def build(crate, log_dir, features=()):
    """compile the harness crate once (codegen for all harnesses) so that per-harness runs only verify"""
    d = prepare(crate)
    tdir = os.path.join(WORK, "kani-" + crate)
    t0 = time.time()
    cmd = ["cargo", "kani", "--only-codegen", "--target-dir", tdir, "-Z", "stubbing"]
    if features:
        cmd += ["--features", ",".join(features)]
    p = subprocess.run(cmd, cwd=d, env=_env(), capture_output=True, text=True)
    open(os.path.join(log_dir, f"kani-build-{crate}.log"), "w").write(p.stdout + p.stderr)
    return p.returncode == 0, time.time() - t0, (p.stdout + p.stderr)[-3000:]


def run_harness(crate, harness, timeout_s, log_dir, mem_gb=12, extra=(), playback=False, want_playback=True, features=()):
    """first pass without concrete playback (measured: the playback option makes CBMC runs ~7x slower); a failed
    harness is re-run once with playback to obtain the concrete counterexample as a unit test"""
    d = os.path.join(VERIF, "kani", crate)
    tdir = os.path.join(WORK, "kani-" + crate)
    log = os.path.join(log_dir, f"kani-{crate}-{harness}.log")
    cmd = ["cargo", "kani", "--harness", harness, "--target-dir", tdir, "-Z", "stubbing"] + list(extra)
    if features:
        cmd += ["--features", ",".join(features)]
    if playback:
        cmd += ["-Z", "concrete-playback", "--concrete-playback=print"]
        log = log[:-4] + "-playback.log"
    shell = f"ulimit -v {mem_gb * 1024 * 1024}; exec timeout -k 5 {int(timeout_s)} " + " ".join(cmd)
    t0 = time.time()
    p = subprocess.run(["bash", "-c", shell], cwd=d, env=_env(), capture_output=True, text=True)
    dt = time.time() - t0
    out = p.stdout + p.stderr
    open(log, "w").write(out)
    r = parse(out, p.returncode, dt, harness, log)
    if r["verdict"] == "failed" and not playback and want_playback:
        r2 = run_harness(crate, harness, timeout_s * 8, log_dir, max(mem_gb, 32), extra, playback=True, features=features)
        if r2.get("playback"):
            r["playback"] = r2["playback"]
        r["playback_verdict"] = r2["verdict"]
    return r


def parse(out, rc, dt, harness, log):
    r = {"harness": harness, "time_s": round(dt, 1), "log": log, "rc": rc}
    m = re.search(r"Verification Time: ([\d.]+)s", out)
    if m:
        r["solver_time_s"] = float(m.group(1))
    failed = re.findall(r"Failed Checks: (.*)", out)
    r["failed_checks"] = failed[:10]
    cov = re.search(r"\*\* (\d+) of (\d+) cover properties satisfied", out)
    if cov:
        r["covers"] = (int(cov.group(1)), int(cov.group(2)))
    nchecks = re.search(r"\*\* (\d+) of (\d+) failed", out)
    if nchecks:
        r["checks"] = int(nchecks.group(2))
        r["checks_failed"] = int(nchecks.group(1))
    if rc == 124 or rc == 137:
        r["verdict"] = "timeout"
    elif "VERIFICATION:- SUCCESSFUL" in out:
        r["verdict"] = "success"
        if cov and int(cov.group(1)) < int(cov.group(2)):
            r["verdict"] = "vacuous"   # a cover (reachability witness) was not satisfied
    elif "VERIFICATION:- FAILED" in out:
        # distinguish genuine assertion failures from unwinding failures / solver errors
        if "Status: ERROR" in out or "out of memory" in out.lower() or "std::bad_alloc" in out:
            r["verdict"] = "error"
        elif failed and all("unwinding assertion" in f for f in failed):
            r["verdict"] = "unwind"
        elif failed:
            r["verdict"] = "failed"
        else:
            r["verdict"] = "error"
    elif "no harnesses matched" in out or "No proof harnesses" in out:
        r["verdict"] = "missing"
    else:
        r["verdict"] = "error"
    # concrete playback test (printed)
    m = re.search(r"Concrete playback unit test for `[^`]*`:\n```\n(.*?)```", out, re.S)
    if m:
        r["playback"] = m.group(1)
    return r


def run_all(crate, harnesses, timeout_s, log_dir, jobs=8, mem_gb=12):
    """harnesses: list of (name, extra_args). Returns dict name -> result."""
    res = {}
    with ThreadPoolExecutor(max_workers=jobs) as ex:
        futs = {h: ex.submit(run_harness, crate, h, timeout_s, log_dir, mem_gb, extra) for h, extra in harnesses}
        for h, f in futs.items():
            res[h] = f.result()
    return res


def playback(r, log_dir):
    """run Kani's concrete-playback unit test natively (cargo kani playback = ordinary `cargo test` build of the
    harness crate against /repo, no model checker) in a scratch copy of the harness crate."""
    import tempfile
    crate = None
    m = re.search(r"kani-([A-Za-z0-9_]+)-", os.path.basename(r["log"]))
    crate = m.group(1) if m else None
    if crate is None or not r.get("playback"):
        return {"status": "no-playback"}
    src = os.path.join(VERIF, "kani", crate)
    dst = os.path.join(WORK, "playback", crate)
    shutil.rmtree(dst, ignore_errors=True)
    shutil.copytree(src, dst, ignore=shutil.ignore_patterns("target"))
    h = r["harness"]
    target_file = None
    for root, _, files in os.walk(os.path.join(dst, "src")):
        for fn in files:
            p = os.path.join(root, fn)
            if re.search(r"fn\s+" + re.escape(h) + r"\s*\(", open(p).read()):
                target_file = p
    if target_file is None:
        return {"status": "harness-source-not-found"}
    test = r["playback"]
    m = re.search(r"fn (kani_concrete_playback_\w+)", test)
    tname = m.group(1) if m else None
    open(target_file, "a").write("\n" + test + "\n")
    cmd = f"cargo kani playback -Z concrete-playback --test {tname}"
    p = subprocess.run(["bash", "-c", cmd], cwd=dst, env=_env(), capture_output=True, text=True)
    out = p.stdout + p.stderr
    open(os.path.join(log_dir, f"playback-{h}.log"), "w").write(out)
    if "test result: FAILED" in out or "panicked at" in out:
        return {"status": "reproduced", "kind": "kani concrete playback (native test)", "cmd": cmd, "cwd": dst, "test": test[:2000]}
    if "test result: ok" in out:
        return {"status": "not-reproduced", "cmd": cmd, "cwd": dst}
    return {"status": "playback-error", "tail": out[-1500:]}
