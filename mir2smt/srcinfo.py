"""Small readers of /repo source text used by obligations to stay robust against harmless refactors
(field order of a struct = MIR field index)."""
from __future__ import annotations
import os
import re

REPO = os.environ.get("VERIF_REPO", "/repo")


def struct_fields(relpath, name):
    """ordered field names of `struct <name> { ... }` in /repo/<relpath> (MIR numbers fields in declaration order)"""
    src = open(os.path.join(REPO, relpath)).read()
    m = re.search(r"\bstruct\s+" + re.escape(name) + r"\b[^{;]*\{", src)
    if not m:
        raise KeyError(f"struct {name} not found in {relpath}")
    i = m.end()
    depth = 1
    j = i
    while depth and j < len(src):
        c = src[j]
        if c == "{":
            depth += 1
        elif c == "}":
            depth -= 1
        j += 1
    body = src[i:j - 1]
    body = re.sub(r"//[^\n]*", "", body)
    body = re.sub(r"/\*.*?\*/", "", body, flags=re.S)
    body = re.sub(r"#\[[^\]]*\]", "", body)
    out = []
    depth = 0
    cur = ""
    for c in body:
        if c in "<([{":
            depth += 1
        elif c in ">)]}":
            depth -= 1
        if c == "," and depth == 0:
            out.append(cur)
            cur = ""
        else:
            cur += c
    if cur.strip():
        out.append(cur)
    names = []
    for f in out:
        m2 = re.match(r"\s*(?:pub(?:\([^)]*\))?\s+)?([A-Za-z_][A-Za-z0-9_]*)\s*:", f)
        if m2:
            names.append(m2.group(1))
    return names


def field_index(relpath, name):
    return {f: i for i, f in enumerate(struct_fields(relpath, name))}
