"""Reusable environment-symbol handlers for obligations (the `environment = nondeterministic stub` rule)."""
from __future__ import annotations
import re
from . import terms as T
from .exec import IntV, BoolV, AggV, EnumV, OpaqueV, RefV, UNIT, Stop, mk_option, type_head
from .builtins import deref


def rx(p):
    return re.compile(p)


def opaque_call(tag=None):
    """returns a fresh unconstrained value of the destination type; logs the call when `tag` is given"""
    def h(ex, callee, args, dty):
        ex.ctx.counter += 1
        n = len(ex.log)
        if tag is not None:
            ex.log.append((tag, callee, [snapshot(ex, a) for a in args], list(ex.pc)))
        if dty in ("()", "!", ""):
            return UNIT
        return ex.ctx.fresh_of_type(f"opq{len(ex.choices)}_{n}_{ex.steps}", dty)
    return h


def const_bool(b):
    def h(ex, callee, args, dty):
        return BoolV(b)
    return h


def memo_symbol(name_fn=None):
    """pure accessor: same callee + same argument terms -> same fresh symbol"""
    def h(ex, callee, args, dty):
        key = (re.sub(r"<.*?>", "", callee), tuple(_key(ex, a) for a in args))
        memo = ex.ctx.env_memo
        if key not in memo:
            nm = (name_fn(callee, args) if name_fn else "env_" + re.sub(r"[^A-Za-z0-9]+", "_", callee.split("::")[-1])) + f"_{len(memo)}"
            memo[key] = ex.ctx.fresh_of_type(nm, dty)
        return memo[key]
    return h


def _key(ex, a):
    a = deref(ex, a)
    if isinstance(a, IntV):
        return ("i", a.t)
    if isinstance(a, BoolV):
        return ("b", a.t)
    if isinstance(a, OpaqueV):
        return ("o", a.name)
    if isinstance(a, AggV):
        return ("a", tuple(_key(ex, f) for f in a.fields))
    if isinstance(a, EnumV):
        return ("e", a.disc, tuple((k, tuple(_key(ex, f) for f in v)) for k, v in a.payloads))
    return ("?", repr(a))


def snapshot(ex, v):
    """dereference references so that logged arguments are plain values"""
    v = deref(ex, v)
    if isinstance(v, AggV):
        return AggV(tuple(snapshot(ex, f) for f in v.fields), v.ty)
    if isinstance(v, EnumV):
        return EnumV(v.disc, tuple((k, tuple(snapshot(ex, f) for f in fs)) for k, fs in v.payloads), v.ty)
    return v


def stop_here(tag):
    def h(ex, callee, args, dty):
        ex.log.append((tag, callee, [snapshot(ex, a) for a in args], list(ex.pc)))
        raise Stop(tag)
    return h


def debug_value(ex, name):
    """current value of a `debug` variable of the top frame"""
    from .exec import parse_place
    fr = ex.top_frame
    pl = fr.fn.debug.get(name)
    if pl is None:
        return None
    return ex.read_place(fr, parse_place(pl))


LOGGING_OFF = [
    (rx(r"<(?:ckb_logger::|log::)?Level as PartialOrd<(?:ckb_logger::|log::)?(?:log::)?LevelFilter>>::(le|lt|ge|gt)"), const_bool(False)),
    (rx(r"(^|::)log_enabled|__private_api::enabled"), const_bool(False)),
    (rx(r"ckb_metrics::handle"), lambda ex, c, a, d: mk_option(False, None, d)),
]


# ---------------------------------------------------------------- iterators over a concrete list of symbolic items
def list_source(items, owned=True):
    """handler: the call returns an iterator over `items` (python list of values)"""
    from .exec import ListV

    def h(ex, callee, args, dty):
        return AggV((ListV(tuple(items), "Vec<?>"), IntV(0, "usize")), "ListIter" if owned else "ListIterRef")
    return h


def _iter_into(ex, callee, args, dty):
    from .exec import ENV_PASS
    v = deref(ex, args[0])
    if isinstance(v, AggV) and v.ty.startswith("ListIter"):
        return v
    return ENV_PASS


def _iter_next(ex, callee, args, dty):
    from .exec import ENV_PASS, ListV
    from .builtins import _wr
    if not isinstance(args[0], RefV):
        return ENV_PASS
    it = deref(ex, args[0])
    if not (isinstance(it, AggV) and it.ty.startswith("ListIter")):
        return ENV_PASS
    lst, pos = it.fields
    if pos.t < len(lst.items):
        _wr(ex, args[0], AggV((lst, IntV(pos.t + 1, "usize")), it.ty))
        item = lst.items[pos.t]
        ex.log.append(("iter_next", callee, [item], list(ex.pc)))
        return mk_option(True, ex.ctx.ref_to(item) if it.ty == "ListIterRef" else item, dty)
    return mk_option(False, None, dty)


LIST_ITER = [
    (rx(r" as (?:std::iter::|core::iter::)?IntoIterator>::into_iter$"), _iter_into),
    (rx(r" as (?:std::iter::|core::iter::)?Iterator>::next$"), _iter_next),
]


# ---------------------------------------------------------------- hash sets of opaque elements
class SetV:
    """model of a HashSet whose elements are opaque values compared by an identity term: `base` is the name of an
    uninterpreted predicate (the unknown initial contents, or None for an initially empty set), `added` the identity
    terms inserted so far (in order)"""
    __slots__ = ("base", "added", "ty")

    def __init__(self, base, added=(), ty="HashSet"):
        self.base = base
        self.added = tuple(added)
        self.ty = ty

    def member(self, ctx, x):
        c = [T.eq(x, y) for y in self.added]
        if self.base is not None:
            ctx.uf_decls[self.base] = (T.BOOL, (T.INT,))
            c.append(T.app(self.base, T.BOOL, x))
        return T.or_(*c) if c else False

    def __repr__(self):
        return f"SetV({self.base}, {len(self.added)} added)"


def ident(ex, v):
    """identity term of an opaque element: one Int symbol per opaque name"""
    v = deref(ex, v)
    if isinstance(v, IntV):
        return v.t
    if isinstance(v, OpaqueV):
        return ex.ctx.int("id!" + v.name, "u64").t
    raise Stop(f"set element without identity: {v}")


def set_env(elem_rx):
    """handlers for HashSet::<elem>::{new, insert, contains} and Extend::extend over SetV"""
    from .builtins import _wr

    def new(ex, callee, args, dty):
        return SetV(None, (), dty)

    def insert(ex, callee, args, dty):
        s = deref(ex, args[0])
        x = ident(ex, args[1])
        was = s.member(ex.ctx, x)
        ex.log.append(("set_insert", callee, [s, x, was], list(ex.pc)))
        _wr(ex, args[0], SetV(s.base, s.added + (x,), s.ty))
        return BoolV(T.not_(was))

    def contains(ex, callee, args, dty):
        s = deref(ex, args[0])
        x = ident(ex, args[1])
        return BoolV(s.member(ex.ctx, x))

    def extend(ex, callee, args, dty):
        s = deref(ex, args[0])
        o = deref(ex, args[1])
        from .exec import ListV
        if isinstance(o, ListV):
            more = tuple(ident(ex, x) for x in o.items)
        elif isinstance(o, SetV) and o.base is None:
            more = o.added
        else:
            raise Stop("extend with an unknown collection")
        _wr(ex, args[0], SetV(s.base, s.added + more, s.ty))
        return UNIT
    return [
        (rx(r"HashSet::<" + elem_rx + r"(, \w+)?>::new$"), new),
        (rx(r"HashSet::<" + elem_rx + r"(, \w+)?>::insert$"), insert),
        (rx(r"HashSet::<" + elem_rx + r"(, \w+)?>::contains(::<.*>)?$"), contains),
        (rx(r"<HashSet<" + elem_rx + r"(, \w+)?> as Extend<.*>>::extend"), extend),
    ]


# ---------------------------------------------------------------- VecDeque / iterator adaptors over concrete-length lists
def _lst(ex, v):
    from .exec import ListV
    v = deref(ex, v)
    return v if isinstance(v, ListV) else None


def _vd_len(ex, c, a, d):
    from .exec import ENV_PASS
    l = _lst(ex, a[0])
    return IntV(len(l.items), "usize") if l is not None else ENV_PASS


def _vd_is_empty(ex, c, a, d):
    from .exec import ENV_PASS
    l = _lst(ex, a[0])
    return BoolV(len(l.items) == 0) if l is not None else ENV_PASS


def _vd_iter(ex, c, a, d):
    from .exec import ENV_PASS
    l = _lst(ex, a[0])
    return AggV((l, IntV(0, "usize")), "ListIterRef") if l is not None else ENV_PASS


def _vd_index(ex, c, a, d):
    from .exec import ENV_PASS, Panic
    l = _lst(ex, a[0])
    i = deref(ex, a[1])
    if l is None or not isinstance(i, IntV) or not isinstance(i.t, int):
        return ENV_PASS
    if i.t >= len(l.items):
        raise Panic("index out of bounds")
    return ex.ctx.ref_to(l.items[i.t])



def _vd_push(front):
    def h(ex, c, a, d):
        from .exec import ENV_PASS, ListV
        from .builtins import _wr
        l = _lst(ex, a[0])
        if l is None or not isinstance(a[0], RefV):
            return ENV_PASS
        items = ((a[1],) + tuple(l.items)) if front else (tuple(l.items) + (a[1],))
        _wr(ex, a[0], ListV(items, l.ty))
        return UNIT
    return h


def _rest(ex, it):
    """remaining items of a list iterator value, as the values `next` would yield"""
    lst, pos = it.fields
    items = lst.items[pos.t:]
    if it.ty == "ListIterRef":
        return [ex.ctx.ref_to(x) for x in items]
    return list(items)


def _is_it(v):
    return isinstance(v, AggV) and isinstance(v.ty, str) and v.ty.startswith("ListIter")


def _owned(items):
    from .exec import ListV
    return AggV((ListV(tuple(items), "Vec<?>"), IntV(0, "usize")), "ListIter")


def _it_take(ex, c, a, d):
    from .exec import ENV_PASS
    from .builtins import _wr
    it, n = deref(ex, a[0]), deref(ex, a[1])
    if not _is_it(it) or not isinstance(n, IntV) or not isinstance(n.t, int):
        return ENV_PASS
    items = _rest(ex, it)[:n.t]
    if isinstance(a[0], RefV):
        # `(&mut iter).take(n)`: the taken items leave the underlying iterator (the adaptor is consumed right away by every caller in /repo: `.take(n).for_each(..)`)
        lst, pos = it.fields
        _wr(ex, a[0], AggV((lst, IntV(pos.t + len(items), "usize")), it.ty))
    return _owned(items)


def _it_skip(ex, c, a, d):
    from .exec import ENV_PASS
    it, n = deref(ex, a[0]), deref(ex, a[1])
    if not _is_it(it) or not isinstance(n, IntV) or not isinstance(n.t, int):
        return ENV_PASS
    return _owned(_rest(ex, it)[n.t:])


def _it_zip(ex, c, a, d):
    from .exec import ENV_PASS
    from .exec import ListV
    x, y = deref(ex, a[0]), deref(ex, a[1])
    if isinstance(y, ListV):          # zip(IntoIterator): a slice / vec reference iterates by reference, an owned vec by value
        y = AggV((y, IntV(0, "usize")), "ListIterRef" if isinstance(a[1], RefV) else "ListIter")
    if not _is_it(x) or not _is_it(y):
        return ENV_PASS
    return _owned([AggV((p, q), "(?, ?)") for p, q in zip(_rest(ex, x), _rest(ex, y))])



def _it_filter_map(ex, c, a, d):
    """Iterator::filter_map over a list iterator: the closure is run per item; an Option with a symbolic discriminant forks the path"""
    from .exec import ENV_PASS
    it = deref(ex, a[0])
    if not _is_it(it):
        return ENV_PASS
    out = []
    for x in _rest(ex, it):
        r = ex.call_value(ex.top_frame, a[1], [x], "Option<?>")
        if not isinstance(r, EnumV):
            return ENV_PASS
        some = r.disc == 1 if isinstance(r.disc, int) else ex.decide(T.eq(r.disc, 1))
        if some:
            out.append(r.payload(1)[0])
    return _owned(out)


def _it_map(ex, c, a, d):
    from .exec import ENV_PASS
    it = deref(ex, a[0])
    if not _is_it(it):
        return ENV_PASS
    return _owned([ex.call_value(ex.top_frame, a[1], [x], "?") for x in _rest(ex, it)])


def _it_collect(ex, c, a, d):
    from .exec import ENV_PASS, ListV
    it = deref(ex, a[0])
    if not _is_it(it) or "Vec<" not in c:
        return ENV_PASS
    items = _rest(ex, it)
    if it.ty == "ListIterRef":
        return ENV_PASS
    return ListV(tuple(items), d or "Vec<?>")


def _slice_iter(ex, c, a, d):
    from .exec import ENV_PASS, ListV
    l = deref(ex, a[0])
    if not isinstance(l, ListV):
        return ENV_PASS
    return AggV((l, IntV(0, "usize")), "ListIterRef")


def _vec_into_iter(ex, c, a, d):
    from .exec import ENV_PASS, ListV
    l = deref(ex, a[0])
    if isinstance(l, ListV):
        return AggV((l, IntV(0, "usize")), "ListIter" if not isinstance(a[0], RefV) else "ListIterRef")
    return ENV_PASS



def _it_any(ex, c, a, d):
    """Iterator::any over a list iterator: the predicate is run per item (short-circuit on a concretely true answer; symbolic answers are or-ed)"""
    from .exec import ENV_PASS
    it = deref(ex, a[0])
    if not _is_it(it):
        return ENV_PASS
    acc = False
    for x in _rest(ex, it):
        r = ex.call_value(ex.top_frame, a[1], [x], "bool")
        if not isinstance(r, BoolV):
            return ENV_PASS
        if r.t is True:
            return BoolV(True)
        acc = T.or_(acc, r.t)
    return BoolV(acc)


def _it_enumerate(ex, c, a, d):
    from .exec import ENV_PASS
    it = deref(ex, a[0])
    if not _is_it(it):
        return ENV_PASS
    return _owned([AggV((IntV(i, "usize"), x), "(usize, ?)") for i, x in enumerate(_rest(ex, it))])


def _it_for_each(ex, c, a, d):
    from .exec import ENV_PASS
    from .builtins import _wr
    it = deref(ex, a[0])
    if not _is_it(it):
        return ENV_PASS
    items = _rest(ex, it)
    if isinstance(a[0], RefV):       # `(&mut iter).for_each(..)` consumes the rest of the underlying iterator
        lst, pos = it.fields
        _wr(ex, a[0], AggV((lst, IntV(len(lst.items), "usize")), it.ty))
    for x in items:
        ex.call_value(ex.top_frame, a[1], [x], "()")
    return UNIT


def _it_collect_option_vec(ex, c, a, d):
    """`iter.collect::<Option<Vec<_>>>()` over a list of Options with concrete discriminants"""
    from .exec import ENV_PASS, ListV
    it = deref(ex, a[0])
    if not _is_it(it) or "Option<" not in c:
        return ENV_PASS
    out = []
    for x in _rest(ex, it):
        x = deref(ex, x)
        if not isinstance(x, EnumV) or not isinstance(x.disc, int):
            return ENV_PASS
        if x.disc == 0:
            return mk_option(False, None, d)
        out.append(x.payload(1)[0])
    return mk_option(True, ListV(tuple(out), "Vec<?>"), d)


def _slice_contains(ex, c, a, d):
    from .exec import ENV_PASS, ListV
    l = deref(ex, a[0])
    x = deref(ex, a[1])
    if not isinstance(l, ListV) or not isinstance(x, IntV):
        return ENV_PASS
    if not all(isinstance(i, IntV) for i in l.items):
        return ENV_PASS
    return BoolV(T.or_(*[T.eq(i.t, x.t) for i in l.items]) if l.items else False)


def _slice_get(ex, c, a, d):
    from .exec import ENV_PASS, ListV
    l = deref(ex, a[0])
    i = deref(ex, a[1])
    if not isinstance(l, ListV) or not isinstance(i, IntV) or not isinstance(i.t, int):
        return ENV_PASS
    if i.t < len(l.items):
        return mk_option(True, ex.ctx.ref_to(l.items[i.t]), d)
    return mk_option(False, None, d)


def _as_items(ex, r):
    """items yielded by iterating the value `r` (list iterator, list, or Option with a concrete discriminant); None if unknown"""
    from .exec import ListV
    if _is_it(r):
        return _rest(ex, r)
    if isinstance(r, ListV):
        return list(r.items)
    if isinstance(r, EnumV) and isinstance(r.ty, str) and "Option" in r.ty:
        some = r.disc == 1 if isinstance(r.disc, int) else ex.decide(T.eq(r.disc, 1))
        return [r.payload(1)[0]] if some else []
    return None


def _it_flat_map(ex, c, a, d):
    """Iterator::flat_map over a list iterator: the closure is run per item and the iterators it returns are concatenated"""
    from .exec import ENV_PASS
    it = deref(ex, a[0])
    if not _is_it(it):
        return ENV_PASS
    out = []
    for x in _rest(ex, it):
        r = ex.call_value(ex.top_frame, a[1], [x], "?")
        items = _as_items(ex, r)
        if items is None:
            raise Stop(f"flat_map: closure returned a non-list iterator {str(r)[:80]}")
        out += items
    return _owned(out)


def _it_find(ex, c, a, d):
    """Iterator::find over a list iterator: the predicate is run on a reference to each item in order; a symbolic answer forks the path"""
    from .exec import ENV_PASS
    from .builtins import _wr
    it = deref(ex, a[0])
    if not _is_it(it):
        return ENV_PASS
    items = _rest(ex, it)
    for k, x in enumerate(items):
        r = ex.call_value(ex.top_frame, a[1], [ex.ctx.ref_to(x)], "bool")
        if not isinstance(r, BoolV):
            return ENV_PASS
        hit = r.t if isinstance(r.t, bool) else ex.decide(r.t)
        if hit:
            if isinstance(a[0], RefV):
                lst, pos = it.fields
                _wr(ex, a[0], AggV((lst, IntV(pos.t + k + 1, "usize")), it.ty))
            return mk_option(True, x, d)
    return mk_option(False, None, d)


def _it_filter(ex, c, a, d):
    """Iterator::filter over a list iterator: the predicate is run on a reference to each item; a symbolic answer forks the path"""
    from .exec import ENV_PASS
    it = deref(ex, a[0])
    if not _is_it(it):
        return ENV_PASS
    out = []
    for x in _rest(ex, it):
        r = ex.call_value(ex.top_frame, a[1], [ex.ctx.ref_to(x)], "bool")
        if not isinstance(r, BoolV):
            return ENV_PASS
        if r.t if isinstance(r.t, bool) else ex.decide(r.t):
            out.append(x)
    return _owned(out)


def _it_take_while(ex, c, a, d):
    """Iterator::take_while over a list iterator: items up to (not including) the first one the predicate rejects; a symbolic answer forks"""
    from .exec import ENV_PASS
    it = deref(ex, a[0])
    if not _is_it(it):
        return ENV_PASS
    out = []
    for x in _rest(ex, it):
        r = ex.call_value(ex.top_frame, a[1], [ex.ctx.ref_to(x)], "bool")
        if not isinstance(r, BoolV):
            return ENV_PASS
        if not (r.t if isinstance(r.t, bool) else ex.decide(r.t)):
            break
        out.append(x)
    return _owned(out)


def _it_cloned(ex, c, a, d):
    from .exec import ENV_PASS
    it = deref(ex, a[0])
    if not _is_it(it):
        return ENV_PASS
    return _owned([deref(ex, x) if isinstance(x, RefV) else x for x in _rest(ex, it)])


def _it_peekable(ex, c, a, d):
    from .exec import ENV_PASS
    it = deref(ex, a[0])
    return it if _is_it(it) else ENV_PASS


def _it_peek(ex, c, a, d):
    from .exec import ENV_PASS
    it = deref(ex, a[0])
    if not _is_it(it):
        return ENV_PASS
    rest = _rest(ex, it)
    if not rest:
        return mk_option(False, None, d)
    return mk_option(True, ex.ctx.ref_to(rest[0]), d)


def _it_rev(ex, c, a, d):
    from .exec import ENV_PASS
    it = deref(ex, a[0])
    if not _is_it(it):
        return ENV_PASS
    return _owned(list(reversed(_rest(ex, it))))


def _it_flatten(ex, c, a, d):
    from .exec import ENV_PASS
    it = deref(ex, a[0])
    if not _is_it(it):
        return ENV_PASS
    out = []
    for x in _rest(ex, it):
        items = _as_items(ex, deref(ex, x) if isinstance(x, RefV) else x)
        if items is None:
            raise Stop(f"flatten: item is not iterable {str(x)[:80]}")
        out += items
    return _owned(out)


LIST_ADAPTORS2 = [
    (rx(r" as (?:std::iter::|core::iter::)?Iterator>::flat_map::<"), _it_flat_map),
    (rx(r" as (?:std::iter::|core::iter::)?Iterator>::flatten$"), _it_flatten),
    (rx(r" as (?:std::iter::|core::iter::)?Iterator>::find::<"), _it_find),
    (rx(r" as (?:std::iter::|core::iter::)?Iterator>::filter::<"), _it_filter),
    (rx(r" as (?:std::iter::|core::iter::)?Iterator>::cloned::<"), _it_cloned),
    (rx(r" as (?:std::iter::|core::iter::)?Iterator>::take_while::<"), _it_take_while),
    (rx(r" as (?:std::iter::|core::iter::)?Iterator>::peekable$"), _it_peekable),
    (rx(r"^(?:std::iter::|core::iter::)?Peekable::<.*>::peek$"), _it_peek),
    (rx(r" as (?:std::iter::|core::iter::)?(?:DoubleEnded)?Iterator>::rev$"), _it_rev),
    (rx(r" as (?:std::iter::|core::iter::)?Iterator>::any::<"), _it_any),
    (rx(r" as (?:std::iter::|core::iter::)?Iterator>::enumerate$"), _it_enumerate),
    (rx(r" as (?:std::iter::|core::iter::)?Iterator>::for_each::<"), _it_for_each),
    (rx(r" as (?:std::iter::|core::iter::)?Iterator>::collect::<(?:std::option::|core::option::)?Option<"), _it_collect_option_vec),
    (rx(r"^core::slice::<impl \[.*\]>::contains$"), _slice_contains),
    (rx(r"^core::slice::<impl \[.*\]>::get::<usize>$"), _slice_get),
    (rx(r" as (?:std::iter::|core::iter::)?Iterator>::filter_map::<"), _it_filter_map),
    (rx(r" as (?:std::iter::|core::iter::)?Iterator>::map::<"), _it_map),
    (rx(r" as (?:std::iter::|core::iter::)?Iterator>::collect::<"), _it_collect),
    (rx(r"^core::slice::<impl \[.*\]>::iter$"), _slice_iter),
    (rx(r"^<(?:std::collections::)?VecDeque<.*> as (?:std::iter::|core::iter::)?IntoIterator>::into_iter$|^<(?:std::vec::|alloc::vec::)?Vec<.*> as (?:std::iter::|core::iter::)?IntoIterator>::into_iter$|^<&(?:'\w+ )?(?:mut )?\[.*\] as (?:std::iter::|core::iter::)?IntoIterator>::into_iter$"), _vec_into_iter),
]

LIST_ADAPTORS = [
    (rx(r"VecDeque::<.*>::len$"), _vd_len),
    (rx(r"VecDeque::<.*>::is_empty$"), _vd_is_empty),
    (rx(r"VecDeque::<.*>::iter$"), _vd_iter),
    (rx(r"VecDeque::<.*>::push_front$"), _vd_push(True)),
    (rx(r"VecDeque::<.*>::push_back$"), _vd_push(False)),
    (rx(r"<VecDeque<.*> as (?:std::ops::|core::ops::)?Index<usize>>::index$"), _vd_index),
    (rx(r" as (?:std::iter::|core::iter::)?Iterator>::take$"), _it_take),
    (rx(r" as (?:std::iter::|core::iter::)?Iterator>::skip$"), _it_skip),
    (rx(r" as (?:std::iter::|core::iter::)?Iterator>::zip::<"), _it_zip),
] + LIST_ADAPTORS2 + LIST_ITER
