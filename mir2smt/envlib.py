"""Reusable environment-symbol handlers for obligations (the `environment = nondeterministic stub` rule)."""
from __future__ import annotations
import re
from . import terms as T
from .exec import IntV, BoolV, AggV, EnumV, OpaqueV, RefV, UNIT, Stop, mk_option, type_head
from .builtins import deref


def rx(p):
    return re.compile(p)


def opaque_call(tag=None):
    """returns a fresh unconstrained value of the destination type; logs the call when `tag` is given"""
    def h(ex, callee, args, dty):
        ex.ctx.counter += 1
        n = len(ex.log)
        if tag is not None:
            ex.log.append((tag, callee, [snapshot(ex, a) for a in args], list(ex.pc)))
        if dty in ("()", "!", ""):
            return UNIT
        return ex.ctx.fresh_of_type(f"opq{len(ex.choices)}_{n}_{ex.steps}", dty)
    return h


def const_bool(b):
    def h(ex, callee, args, dty):
        return BoolV(b)
    return h


def memo_symbol(name_fn=None):
    """pure accessor: same callee + same argument terms -> same fresh symbol"""
    def h(ex, callee, args, dty):
        key = (re.sub(r"<.*?>", "", callee), tuple(_key(ex, a) for a in args))
        memo = ex.ctx.env_memo
        if key not in memo:
            nm = (name_fn(callee, args) if name_fn else "env_" + re.sub(r"[^A-Za-z0-9]+", "_", callee.split("::")[-1])) + f"_{len(memo)}"
            memo[key] = ex.ctx.fresh_of_type(nm, dty)
        return memo[key]
    return h


def _key(ex, a):
    a = deref(ex, a)
    if isinstance(a, IntV):
        return ("i", a.t)
    if isinstance(a, BoolV):
        return ("b", a.t)
    if isinstance(a, OpaqueV):
        return ("o", a.name)
    if isinstance(a, AggV):
        return ("a", tuple(_key(ex, f) for f in a.fields))
    if isinstance(a, EnumV):
        return ("e", a.disc, tuple((k, tuple(_key(ex, f) for f in v)) for k, v in a.payloads))
    return ("?", repr(a))


def snapshot(ex, v):
    """dereference references so that logged arguments are plain values"""
    v = deref(ex, v)
    if isinstance(v, AggV):
        return AggV(tuple(snapshot(ex, f) for f in v.fields), v.ty)
    if isinstance(v, EnumV):
        return EnumV(v.disc, tuple((k, tuple(snapshot(ex, f) for f in fs)) for k, fs in v.payloads), v.ty)
    return v


def stop_here(tag):
    def h(ex, callee, args, dty):
        ex.log.append((tag, callee, [snapshot(ex, a) for a in args], list(ex.pc)))
        raise Stop(tag)
    return h


def debug_value(ex, name):
    """current value of a `debug` variable of the top frame"""
    from .exec import parse_place
    fr = ex.top_frame
    pl = fr.fn.debug.get(name)
    if pl is None:
        return None
    return ex.read_place(fr, parse_place(pl))


LOGGING_OFF = [
    (rx(r"<(?:ckb_logger::|log::)?Level as PartialOrd<(?:ckb_logger::|log::)?(?:log::)?LevelFilter>>::(le|lt|ge|gt)"), const_bool(False)),
    (rx(r"(^|::)log_enabled|__private_api::enabled"), const_bool(False)),
    (rx(r"ckb_metrics::handle"), lambda ex, c, a, d: mk_option(False, None, d)),
]
