"""Solver interface: every query goes to two independent solvers (cvc5 and z3 5.1) as SMT-LIB2 text."""
from __future__ import annotations
import subprocess
import time
import re
import os
from . import terms as T

SOLVERS = {
    "cvc5": ["cvc5", "--lang", "smt2", "--produce-models", "--tlimit-per={ms}"],
    "z3new": ["z3-new", "-in", "-smt2", "-t:{ms}"],
}


def script(decls, ufs, asserts, get_values=(), logic="ALL"):
    out = [f"(set-logic {logic})", "(set-option :produce-models true)"]
    for n, s in sorted(decls.items()):
        out.append(f"(declare-const {n} {s})")
    for n, (rs, args) in sorted(ufs.items()):
        out.append(f"(declare-fun {n} ({' '.join(args)}) {rs})")
    cache = {}
    for a in asserts:
        if a is True:
            continue
        out.append(f"(assert {T.to_smt(a, cache)})")
    out.append("(check-sat)")
    if get_values:
        out.append("(get-value (" + " ".join(get_values) + "))")
    return "\n".join(out) + "\n"


def _classify(out):
    first = ""
    for line in out.split("\n"):
        line = line.strip()
        if line in ("sat", "unsat", "unknown"):
            first = line
            break
    if "(error" in out and first != "sat":
        errs = [l for l in out.split("\n") if "(error" in l]
        benign = all("model is not available" in e or "cannot get value unless" in e.lower() or "Cannot get value" in e for e in errs)
        if not benign:
            return "error"
    return first or "unknown"


def run_solvers(text, timeout_s, solvers, grace=(3.0, 4.0)):
    """run all solvers concurrently on the same text. Once one gives a definite answer the others get a grace
    period (max(grace[0], grace[1] * t_first)) before being stopped and recorded as `stopped`."""
    procs = {}
    t0 = time.time()
    for s in solvers:
        cmd = [c.format(ms=int(timeout_s * 1000)) for c in SOLVERS[s]]
        p = subprocess.Popen(cmd, stdin=subprocess.PIPE, stdout=subprocess.PIPE, stderr=subprocess.STDOUT, text=True)
        try:
            p.stdin.write(text)
            p.stdin.close()
        except BrokenPipeError:
            pass
        procs[s] = p
    res = {}
    deadline = t0 + timeout_s + 5
    first_done = None
    while len(res) < len(procs):
        now = time.time()
        for s, p in procs.items():
            if s in res:
                continue
            if p.poll() is not None:
                out = p.stdout.read()
                v = _classify(out)
                res[s] = (v, out, now - t0)
                if v in ("sat", "unsat") and first_done is None:
                    first_done = now
                    g = max(grace[0], grace[1] * (now - t0))
                    deadline = min(deadline, now + g)
        if len(res) == len(procs):
            break
        if now > deadline:
            for s, p in procs.items():
                if s not in res:
                    p.kill()
                    try:
                        p.stdout.read()
                    except Exception:
                        pass
                    res[s] = ("stopped" if first_done is not None else "timeout", "", now - t0)
            break
        time.sleep(0.005)
    return res, time.time() - t0


def parse_model(out):
    """parse `(get-value ...)` output: ((name value) ...)"""
    model = {}
    for m in re.finditer(r"\(\(([A-Za-z_][A-Za-z0-9_.!$]*) (\d+)\) (\d+)\)", out):
        model.setdefault(m.group(1), {})[int(m.group(2))] = int(m.group(3))
    out = re.sub(r"\(\(([A-Za-z_][A-Za-z0-9_.!$]*) (\d+)\) (\d+)\)", "", out)
    for m in re.finditer(r"\(([A-Za-z_][A-Za-z0-9_.!$]*) (\(- (\d+)\)|-?\d+|true|false)\)", out):
        name, val = m.group(1), m.group(2)
        if val == "true":
            model[name] = True
        elif val == "false":
            model[name] = False
        elif m.group(3):
            model[name] = -int(m.group(3))
        else:
            model[name] = int(val)
    return model


POINTWISE_ONLY = set()     # Int -> Int functions that are not byte buffers: only their values at the queried points are reported


def _fill_points(model, point_apps):
    """model[fname][args] = value for every named application whose arguments can be evaluated under the model"""
    class _D(dict):
        def __missing__(self, k):
            return 0
    env = _D({k: v for k, v in model.items() if not isinstance(v, dict)})
    funs = {}

    def mk(name):
        def f(*args):
            d = model.get(name, {})
            key = args[0] if len(args) == 1 else str(tuple(args))
            return d.get(key, 0) if isinstance(d, dict) else 0
        return f
    pending = list(enumerate(point_apps))
    for _ in range(4):
        nxt = []
        for k, ap in pending:
            funs.setdefault(ap[2], mk(ap[2]))
            try:
                args = [T.evaluate(x, env, funs) for x in ap[3:]]
            except Exception:
                nxt.append((k, ap))
                continue
            val = model.get(f"app!{k}")
            if val is None:
                continue
            key = args[0] if len(args) == 1 else str(tuple(args))
            d = model.setdefault(ap[2], {})
            if isinstance(d, dict):
                d[key] = val
        if not nxt:
            break
        pending = nxt
    for k in range(len(point_apps)):
        model.pop(f"app!{k}", None)


class QueryResult:
    def __init__(self, name, verdict, per_solver, model, text, time_s):
        self.name = name
        self.verdict = verdict      # unsat | sat | inconclusive
        self.per_solver = per_solver
        self.model = model
        self.text = text
        self.time_s = time_s


def check(name, decls, ufs, asserts, timeout_s=60, want_model_of=None, solvers=("cvc5", "z3new")):
    """Returns QueryResult. Verdict `unsat`/`sat` needs at least one solver with that answer and no solver with
    the opposite answer or an `(error`; everything else is inconclusive."""
    gv = tuple(want_model_of) if want_model_of is not None else tuple(n for n in sorted(decls))
    # byte buffers (uninterpreted Int -> Int): ask for their first bytes so that counterexamples can be replayed
    for fn_, (rs, args) in sorted(ufs.items()):
        if rs == "Int" and tuple(args) == ("Int",) and fn_ not in POINTWISE_ONLY:
            gv = gv + tuple(f"({fn_} {i})" for i in range(192))
    # applications of other uninterpreted functions (to symbolic arguments): name each one by a fresh constant so that the
    # model says what the function returns at the points the query talks about
    point_apps = []
    seen_ids = set()
    for a in asserts:
        if a is True or a is False:
            continue
        for ap in T.app_terms(a, None, seen_ids):
            rs, args = ufs.get(ap[2], (None, None))
            if rs is None or (rs == "Int" and tuple(args) == ("Int",) and all(T.is_const(x) for x in ap[3:])):
                continue
            if ap not in point_apps:
                point_apps.append(ap)
    point_apps = point_apps[:400]
    decls2 = dict(decls)
    asserts2 = list(asserts)
    for k, ap in enumerate(point_apps):
        nm = f"app!{k}"
        decls2[nm] = ap[1]
        asserts2.append(T.eq(T.var(nm, ap[1]), ap) if ap[1] == "Int" else T.iff(T.var(nm, ap[1]), ap))
        gv = gv + (nm,)
    text = script(decls2, ufs, asserts2, gv)
    res, wall = run_solvers(text, timeout_s, solvers)
    per = {}
    model = None
    for s in solvers:
        v, out, dt = res[s]
        per[s] = (v, round(dt, 3))
        if v == "sat" and model is None:
            model = parse_model(out)
            _fill_points(model, point_apps)
    verdicts = {v for v, _ in per.values()}
    if "error" in verdicts:
        verdict = "inconclusive"
    elif "sat" in verdicts and "unsat" in verdicts:
        verdict = "inconclusive"
    elif "unsat" in verdicts:
        verdict = "unsat"
    elif "sat" in verdicts:
        verdict = "sat"
    else:
        verdict = "inconclusive"
    return QueryResult(name, verdict, per, model, text, wall)
