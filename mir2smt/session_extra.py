"""A second Session over another crate set whose results are merged into the main one (an obligation whose code lives in crates the check's main session does not load)."""
from .ob import Session


class _Extra(Session):
    def finish(self):
        S = self._parent
        S.results += self.results
        S.encoded |= self.encoded
        S.env_syms |= self.env_syms
        S.aux_queries += self.aux_queries
        S.aux_time += self.aux_time
        S._natives.update(self._natives)
        S.dump_log += [x for x in self.dump_log if x not in S.dump_log]
        self.results = []


def extra_session(S, crates):
    S2 = _Extra(list(crates), timeout_s=S.timeout_s)
    S2.tier, S2.native_driver, S2._parent = S.tier, S.native_driver, S
    return S2
