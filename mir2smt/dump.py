"""Produce `-Zunpretty=mir` dumps of /repo crates from the current working tree (repository toolchain).

The dump is regenerated whenever any tracked source of /repo changed: the cache key is a hash over all
.rs/.toml/.mol files of the work tree; rustc is forced to re-run by passing `--cfg vmir_<key>` (changing the
flags changes cargo's fingerprint, no file in /repo is touched).
"""
from __future__ import annotations
import hashlib
import os
import subprocess
import sys
import time

REPO = os.environ.get("VERIF_REPO", "/repo")
WORK = os.environ.get("VERIF_WORK", "/verif/work")

_tree_hash = None


def tree_hash():
    global _tree_hash
    if _tree_hash is not None:
        return _tree_hash
    h = hashlib.sha256()
    skip = {"target", ".git", "docs", "devtools", "docker", "test", "benches"}
    for root, dirs, files in os.walk(REPO):
        dirs[:] = sorted(d for d in dirs if d not in skip and not d.startswith("."))
        for fn in sorted(files):
            if fn.endswith((".rs", ".toml", ".mol", ".lock")):
                p = os.path.join(root, fn)
                try:
                    data = open(p, "rb").read()
                except OSError:
                    continue
                h.update(p.encode())
                h.update(hashlib.sha256(data).digest())
    _tree_hash = h.hexdigest()[:16]
    return _tree_hash


def file_hash(path):
    try:
        return hashlib.sha256(open(os.path.join(REPO, path), "rb").read()).hexdigest()[:16]
    except OSError:
        return None


def dump(pkg, log=None):
    """returns path of the MIR dump of workspace package `pkg` for the current tree"""
    os.makedirs(os.path.join(WORK, "mir"), exist_ok=True)
    key = tree_hash()
    out = os.path.join(WORK, "mir", f"{pkg}.{key}.mir")
    if os.path.exists(out) and os.path.getsize(out) > 1000:
        return out
    # drop stale dumps of this package
    for fn in os.listdir(os.path.join(WORK, "mir")):
        if fn.startswith(pkg + ".") and fn.endswith(".mir"):
            try:
                os.remove(os.path.join(WORK, "mir", fn))
            except OSError:
                pass
    env = dict(os.environ)
    env["RUSTC_BOOTSTRAP"] = "1"
    env["CARGO_NET_OFFLINE"] = "true"
    env.pop("RUSTFLAGS", None)
    cmd = ["cargo", "rustc", "--offline", "-p", pkg, "--lib", "--", "-Zunpretty=mir", "-C", "debug-assertions=off",
           "-C", "overflow-checks=on", "--cfg", f"vmir_{key}", "-A", "unexpected_cfgs"]
    t0 = time.time()
    p = subprocess.run(cmd, cwd=REPO, env=env, capture_output=True, text=True)
    if p.returncode != 0 or len(p.stdout) < 1000:
        # a fresh fingerprint (same key seen before but dump file lost): force with a nonce
        cmd[-3] = f"vmir_{key}_{int(time.time())}"
        p = subprocess.run(cmd, cwd=REPO, env=env, capture_output=True, text=True)
    if p.returncode != 0 or len(p.stdout) < 1000:
        sys.stderr.write(p.stderr[-4000:])
        raise RuntimeError(f"MIR dump of {pkg} failed (rc={p.returncode})")
    tmp = out + ".tmp"
    open(tmp, "w").write(p.stdout)
    os.replace(tmp, out)
    if log is not None:
        log.append((pkg, round(time.time() - t0, 1)))
    return out
