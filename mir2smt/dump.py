"""Produce `-Zunpretty=mir` dumps of /repo crates from the current working tree (repository toolchain).

The dump of a package is regenerated whenever its MIR can have changed: the cache key (`pkg_key`) is a hash over the
.rs/.toml/.mol files of the package itself, the keys of every workspace package it depends on (non-dev, transitively),
Cargo.lock and the toolchain file; rustc is forced to re-run by passing `--cfg vmir_<key>` (changing the flags changes
cargo's fingerprint, no file in /repo is touched). `tree_hash` (all sources of the work tree) is reported in evidence.
"""
from __future__ import annotations
import hashlib
import os
import subprocess
import sys
import time

REPO = os.environ.get("VERIF_REPO", "/repo")
WORK = os.environ.get("VERIF_WORK", "/verif/work")

_tree_hash = None


def tree_hash():
    global _tree_hash
    if _tree_hash is not None:
        return _tree_hash
    h = hashlib.sha256()
    skip = {"target", ".git", "docs", "devtools", "docker", "test", "benches"}
    for root, dirs, files in os.walk(REPO):
        dirs[:] = sorted(d for d in dirs if d not in skip and not d.startswith("."))
        for fn in sorted(files):
            if fn.endswith((".rs", ".toml", ".mol", ".lock")):
                p = os.path.join(root, fn)
                try:
                    data = open(p, "rb").read()
                except OSError:
                    continue
                h.update(p.encode())
                h.update(hashlib.sha256(data).digest())
    _tree_hash = h.hexdigest()[:16]
    return _tree_hash


_meta = None
_pkg_keys = {}


def _metadata():
    global _meta
    if _meta is None:
        import json
        env = dict(os.environ)
        env["CARGO_NET_OFFLINE"] = "true"
        p = subprocess.run(["cargo", "metadata", "--format-version", "1", "--offline", "--no-deps"], cwd=REPO, env=env, capture_output=True, text=True)
        if p.returncode != 0:
            raise RuntimeError("cargo metadata failed: " + p.stderr[-2000:])
        pk = {}
        for x in json.loads(p.stdout)["packages"]:
            pk[x["name"]] = {"dir": os.path.dirname(x["manifest_path"]),
                             "deps": sorted({d["name"] for d in x["dependencies"] if d.get("path") and d.get("kind") != "dev"})}
        _meta = pk
    return _meta


def _own_files_hash(pdir, all_dirs):
    h = hashlib.sha256()
    skip = {"target", ".git"}
    for root, dirs, files in os.walk(pdir):
        dirs[:] = sorted(d for d in dirs if d not in skip and not d.startswith(".") and os.path.join(root, d) not in all_dirs)
        for fn in sorted(files):
            if fn.endswith((".rs", ".toml", ".mol")):
                fp = os.path.join(root, fn)
                try:
                    data = open(fp, "rb").read()
                except OSError:
                    continue
                h.update(os.path.relpath(fp, REPO).encode())
                h.update(hashlib.sha256(data).digest())
    return h.hexdigest()


def pkg_key(pkg, _stack=()):
    """cache key of one workspace package: its own sources, the keys of the workspace packages it depends on (non-dev), Cargo.lock and the toolchain file --
    an edit re-dumps exactly the packages whose MIR can change"""
    if pkg in _pkg_keys:
        return _pkg_keys[pkg]
    meta = _metadata()
    if pkg not in meta:
        return tree_hash()
    if pkg in _stack:
        return "cycle"
    all_dirs = {m["dir"] for m in meta.values()}
    h = hashlib.sha256()
    h.update(_own_files_hash(meta[pkg]["dir"], all_dirs - {meta[pkg]["dir"]}).encode())
    for d in meta[pkg]["deps"]:
        h.update(d.encode())
        h.update(pkg_key(d, _stack + (pkg,)).encode())
    for extra in ("Cargo.lock", "rust-toolchain.toml", "rust-toolchain", "Cargo.toml"):
        try:
            h.update(hashlib.sha256(open(os.path.join(REPO, extra), "rb").read()).digest())
        except OSError:
            pass
    _pkg_keys[pkg] = h.hexdigest()[:16]
    return _pkg_keys[pkg]


def file_hash(path):
    try:
        return hashlib.sha256(open(os.path.join(REPO, path), "rb").read()).hexdigest()[:16]
    except OSError:
        return None


def dump(pkg, log=None):
    """returns path of the MIR dump of workspace package `pkg` for the current tree"""
    os.makedirs(os.path.join(WORK, "mir"), exist_ok=True)
    key = pkg_key(pkg)
    out = os.path.join(WORK, "mir", f"{pkg}.{key}.mir")
    if os.path.exists(out) and os.path.getsize(out) > 1000:
        return out
    env = dict(os.environ)
    env["RUSTC_BOOTSTRAP"] = "1"
    env["CARGO_NET_OFFLINE"] = "true"
    env.pop("RUSTFLAGS", None)
    cmd = ["cargo", "rustc", "--offline", "-p", pkg, "--lib", "--", "-Zunpretty=mir", "-C", "debug-assertions=off",
           "-C", "overflow-checks=on", "--cfg", f"vmir_{key}", "-A", "unexpected_cfgs"]
    t0 = time.time()
    p = subprocess.run(cmd, cwd=REPO, env=env, capture_output=True, text=True)
    if p.returncode != 0 or len(p.stdout) < 1000:
        # a fresh fingerprint (same key seen before but dump file lost): force with a nonce
        cmd[-3] = f"vmir_{key}_{int(time.time())}"
        p = subprocess.run(cmd, cwd=REPO, env=env, capture_output=True, text=True)
    if p.returncode != 0 or len(p.stdout) < 1000:
        sys.stderr.write(p.stderr[-4000:])
        raise RuntimeError(f"MIR dump of {pkg} failed (rc={p.returncode})")
    tmp = out + ".tmp"
    open(tmp, "w").write(p.stdout)
    os.replace(tmp, out)
    # drop stale dumps of this package (only after the new one exists)
    for fn in os.listdir(os.path.join(WORK, "mir")):
        if fn.startswith(pkg + ".") and fn.endswith(".mir") and fn != os.path.basename(out):
            try:
                os.remove(os.path.join(WORK, "mir", fn))
            except OSError:
                pass
    if log is not None:
        log.append((pkg, round(time.time() - t0, 1)))
    return out
