"""Symbolic executor for textual MIR: enumerates paths of a real function with symbolic inputs.

Path enumeration uses decision replay: a path is identified by the sequence of choices taken at
symbolic branch points; each path is re-executed from the start, so no state copying is needed and
builtins may branch anywhere by calling `ex.decide(cond)`.
"""
from __future__ import annotations
import re
import os
from dataclasses import dataclass, field
from . import terms as T
from .parser import split_top, parse_mir, Function, _find_matching

# ------------------------------------------------------------------ types
INT_TYPES = {}
for _b in (8, 16, 32, 64, 128):
    INT_TYPES[f"u{_b}"] = (_b, False)
    INT_TYPES[f"i{_b}"] = (_b, True)
INT_TYPES["usize"] = (64, False)
INT_TYPES["isize"] = (64, True)
# modelled big integers (numext): mathematical integers with a range
INT_TYPES["U256"] = (256, False)
INT_TYPES["U512"] = (512, False)
INT_TYPES["U128"] = (128, False)


def type_head(ty):
    """last path segment of a type without generics/refs: `&core::extras::EpochExt` -> EpochExt"""
    ty = ty.strip()
    while ty.startswith("&"):
        ty = ty[1:].strip()
        if ty.startswith("mut "):
            ty = ty[4:]
        if ty.startswith("'"):
            ty = ty.split(" ", 1)[1] if " " in ty else ty
    # strip generics
    depth = 0
    out = []
    for c in ty:
        if c == "<":
            depth += 1
        elif c == ">":
            depth -= 1
        elif depth == 0:
            out.append(c)
    ty = "".join(out)
    return ty.split("::")[-1].strip()


def int_type(ty):
    if ty is None:
        return None
    h = type_head(ty) if "::" in ty or ty.startswith("&") else ty.strip()
    return INT_TYPES.get(h)


def ty_range(ty):
    bits, signed = INT_TYPES[ty]
    if signed:
        return -(1 << (bits - 1)), (1 << (bits - 1)) - 1
    return 0, (1 << bits) - 1


# ------------------------------------------------------------------ values
@dataclass(frozen=True)
class IntV:
    t: object
    ty: str


@dataclass(frozen=True)
class BoolV:
    t: object


@dataclass(frozen=True)
class AggV:
    fields: tuple
    ty: str = ""


@dataclass(frozen=True)
class EnumV:
    disc: object            # term (Int)
    payloads: tuple         # tuple of (variant_idx, fields tuple)
    ty: str = ""

    def payload(self, idx):
        for k, v in self.payloads:
            if k == idx:
                return v
        return None


@dataclass(frozen=True)
class OpaqueV:
    name: str
    ty: str = ""


@dataclass(frozen=True)
class FnV:
    name: str


@dataclass(frozen=True)
class SliceV:
    """`&[u8]` view into a symbolic byte buffer: bytes are `buf(i)` (an uninterpreted function Int -> Int with range 0..255)"""
    buf: str
    off: object
    len: object
    ty: str = "[u8]"


@dataclass(frozen=True)
class ListV:
    """a Vec / slice of concrete length whose elements are symbolic values"""
    items: tuple
    ty: str = ""


@dataclass(frozen=True)
class StrV:
    s: str


@dataclass(frozen=True)
class CoroV:
    """state object of an `async fn` body (coroutine): `state` is the resume point (0 = not started), `upvars` the captured arguments
    (field index -> value), `saved` the locals kept across suspension points ((variant, field index) -> value)"""
    state: int
    upvars: tuple      # tuple of (idx, value)
    saved: tuple       # tuple of ((variant, idx), value)
    ty: str = ""

    def up(self, idx):
        for k, v in self.upvars:
            if k == idx:
                return v
        return None

    def sv(self, key):
        for k, v in self.saved:
            if k == key:
                return v
        return None


class RefV:
    __slots__ = ("frame", "local", "proj", "ty")

    def __init__(self, frame, local, proj=(), ty=""):
        self.frame = frame
        self.local = local
        self.proj = tuple(proj)
        self.ty = ty

    def __repr__(self):
        return f"Ref({self.local}{self.proj})"


UNIT = AggV((), "()")
ENV_PASS = object()
# constants of crates outside /repo that the generated code refers to (molecule 0.9: `pub const NUMBER_SIZE: usize = 4`)
KNOWN_CONSTS = {"molecule::NUMBER_SIZE": (4, "usize")}
for _ty, _bits in (("u8", 8), ("u16", 16), ("u32", 32), ("u64", 64), ("usize", 64), ("u128", 128)):
    KNOWN_CONSTS[f"core::num::<impl {_ty}>::MAX"] = ((1 << _bits) - 1, _ty)
    KNOWN_CONSTS[f"core::num::<impl {_ty}>::MIN"] = (0, _ty)

ENUMS = {
    "Option": ["None", "Some"],
    "Result": ["Ok", "Err"],
    "Ordering": {"Less": -1, "Equal": 0, "Greater": 1},
    "ControlFlow": ["Continue", "Break"],
    "Bound": ["Included", "Excluded", "Unbounded"],
    "Entry": ["Occupied", "Vacant"],       # std::collections::hash_map::Entry
    "BTreeEntry": ["Vacant", "Occupied"],  # std::collections::btree_map::Entry (declared in this order); built by mir2smt/symmap.py
    "Poll": ["Ready", "Pending"],
}


def mk_option(some, val=None, ty="Option"):
    if some is True:
        return EnumV(1, ((1, (val,)),), ty)
    if some is False:
        return EnumV(0, (), ty)
    return EnumV(T.ite(some, 1, 0), ((1, (val,)),), ty)


def mk_result(ok, val=None, err=None, ty="Result"):
    if ok is True:
        return EnumV(0, ((0, (val,)),), ty)
    if ok is False:
        return EnumV(1, ((1, (err,)),), ty)
    return EnumV(T.ite(ok, 0, 1), ((0, (val,)), (1, (err,))), ty)


def mk_ordering(a, b):
    return EnumV(T.ite(T.lt(a, b), -1, T.ite(T.eq(a, b), 0, 1)), (), "Ordering")


# ------------------------------------------------------------------ exceptions
class PathEnd(Exception):
    pass


class Panic(PathEnd):
    def __init__(self, msg):
        self.msg = msg


class Stop(PathEnd):
    def __init__(self, info=None):
        self.info = info


class Unsupported(PathEnd):
    def __init__(self, what):
        self.what = what


class Unreachable(PathEnd):
    def __init__(self, where):
        self.where = where


class UnwindExceeded(PathEnd):
    def __init__(self, where):
        self.where = where


@dataclass
class Path:
    pc: list
    outcome: str            # return | panic | stop | unsupported | unwind
    value: object = None    # return value / panic msg / stop info / unsupported text
    log: list = field(default_factory=list)     # observed calls: (tag, callee, args values)
    post: dict = field(default_factory=dict)    # final contents of the `&mut` argument cells: id(holder frame) -> locals
    debug: dict = field(default_factory=dict)   # captured debug vars of the top frame (name -> value)

    def cond(self):
        return T.and_(*self.pc)


# ------------------------------------------------------------------ program database
class Program:
    """All functions from a set of MIR dumps; call resolution."""

    def __init__(self, repo="/repo"):
        self.repo = repo
        self.funcs = []
        self.by_short = {}
        self.closures = {}
        self.consts = {}
        self._src_cache = {}
        self._enum_cache = {}
        self.crates = []

    def load(self, path, crate):
        fs = parse_mir(open(path).read(), crate)
        self.crates.append(crate)
        for f in fs:
            self.funcs.append(f)
            if f.kind == "fn":
                self.by_short.setdefault(f.short.split("::")[-1] if "{closure" not in f.short else f.short, []).append(f)
                if f.params and f.params[0][1].lstrip("&mut ").startswith("{closure@"):
                    ct = f.params[0][1]
                    ct = ct[ct.index("{closure@"):]
                    self.closures[ct] = f
                f.impl_header = self._impl_header(f)
            else:
                self.consts[f.name] = f
        return len(fs)

    def _impl_header(self, f):
        if not f.impl_span:
            return None
        m = re.match(r"(.+?):(\d+):(\d+): (\d+):(\d+)", f.impl_span)
        if not m:
            return None
        fn, l1, c1, l2, c2 = m.group(1), int(m.group(2)), int(m.group(3)), int(m.group(4)), int(m.group(5))
        lines = self._src(fn)
        if lines is None or l1 > len(lines):
            return None
        if l1 == l2:
            return lines[l1 - 1][c1 - 1:c2 - 1]
        return " ".join(x.strip() for x in lines[l1 - 1:l2])

    def _src(self, fn):
        if fn not in self._src_cache:
            p = os.path.join(self.repo, fn)
            try:
                self._src_cache[fn] = open(p).read().split("\n")
            except OSError:
                self._src_cache[fn] = None
        return self._src_cache[fn]

    def find(self, pattern, nparams=None):
        """find a function by a suffix such as `EpochNumberWithFraction::cmp` (type matched against the
        impl header in the source) or a bare name"""
        parts = pattern.split("::")
        name = parts[-1]
        tyname = parts[-2] if len(parts) > 1 else None
        cands = [f for f in self.by_short.get(name, [])]
        if tyname:
            c2 = []
            for f in cands:
                h = f.impl_header or ""
                if re.search(r"\b" + re.escape(tyname) + r"\b", h) or re.search(r"\b" + re.escape(tyname) + r"\b", f.name.replace(f.impl_span or "\0", "")):
                    c2.append(f)
            cands = c2
        if nparams is not None:
            cands = [f for f in cands if len(f.params) == nparams]
        return cands

    def find1(self, pattern, nparams=None, trait=None):
        c = self.find(pattern, nparams)
        if trait is not None:
            c = [f for f in c if re.search(r"\b" + re.escape(trait) + r"\b", f.impl_header or "")]
        else:
            # prefer inherent impls (no ` for `) when ambiguous
            if len(c) > 1:
                inh = [f for f in c if " for " not in (f.impl_header or "")]
                if len(inh) == 1:
                    c = inh
        if len(c) != 1:
            raise KeyError(f"{pattern}: {len(c)} candidates: {[f.name for f in c][:5]}")
        return c[0]

    def _scan_enums(self):
        idx = {}
        aliases = {}
        alias_pat = re.compile(r"\b([A-Z][A-Za-z0-9_]*)\s+as\s+([A-Z][A-Za-z0-9_]*)\b")
        pat = re.compile(r"\benum\s+([A-Za-z_][A-Za-z0-9_]*)\b[^{;]*\{")
        for root, dirs, files in os.walk(self.repo):
            dirs[:] = sorted(d for d in dirs if d not in ("target", ".git", "test", "benches", "docs", "devtools"))
            for fn in sorted(files):
                if not fn.endswith(".rs"):
                    continue
                p = os.path.join(root, fn)
                try:
                    s = open(p).read()
                except OSError:
                    continue
                if " as " in s:
                    for line in s.split("\n"):
                        if "use " in line or line.strip().startswith("pub use") or " as " in line and line.strip().endswith(","):
                            for am in alias_pat.finditer(line):
                                aliases.setdefault(am.group(2), set()).add(am.group(1))
                if "enum " not in s:
                    continue
                s = re.sub(r"//[^\n]*", "", s)       # a doc comment ending in the word "enum" must not be read as a declaration
                for m in pat.finditer(s):
                    end = _find_matching(s, m.end() - 1, "{", "}")
                    if end < 0:
                        continue
                    body = s[m.end():end]
                    body = re.sub(r"//[^\n]*", "", body)
                    body = re.sub(r"/\*.*?\*/", "", body, flags=re.S)
                    body = re.sub(r"#\[[^\]]*\]", "", body)
                    vs = []
                    explicit = {}
                    for part in split_top(body, ","):
                        part = part.strip()
                        if not part:
                            continue
                        if part.startswith("#("):
                            # seq_macro repetition `#( Name~N = N << k, )*` inside `seq!(N in a..=b { ... })`
                            sm = None
                            for sm in re.finditer(r"seq!\(\s*(\w+)\s+in\s+(\d+)\s*\.\.(=?)\s*(\d+)\s*\{", s[:m.start()]):
                                pass
                            rm = re.search(r"([A-Za-z_][A-Za-z0-9_]*)~(\w+)\s*=\s*(\w+)\s*(?:<<\s*(\d+))?", part)
                            if sm and rm and rm.group(2) == sm.group(1) == rm.group(3):
                                hi = int(sm.group(4)) + (1 if sm.group(3) else 0)
                                for nval in range(int(sm.group(2)), hi):
                                    vs.append(rm.group(1) + str(nval))
                                    explicit[rm.group(1) + str(nval)] = nval << int(rm.group(4) or 0)
                            continue
                        mm = re.match(r"([A-Za-z_][A-Za-z0-9_]*)\s*(?:=\s*(-?\d+))?", part)
                        if mm:
                            vs.append(mm.group(1))
                            if mm.group(2) is not None:
                                explicit[mm.group(1)] = int(mm.group(2))
                    if explicit:
                        d = {}
                        cur = -1
                        for v in vs:
                            cur = explicit.get(v, cur + 1)
                            d[v] = cur
                        vs = d
                    idx.setdefault(m.group(1), []).append((os.path.relpath(p, self.repo), vs))
        self._enum_index = idx
        self._enum_aliases = aliases

    def enum_variants(self, name, vname=None, hint_file=None):
        if name == "Ordering" and vname in ("Relaxed", "Release", "Acquire", "AcqRel", "SeqCst"):
            return ["Relaxed", "Release", "Acquire", "AcqRel", "SeqCst"]      # std::sync::atomic::Ordering
        if name in ENUMS:
            return ENUMS[name]
        if not hasattr(self, "_enum_index"):
            self._scan_enums()
        defs = self._enum_index.get(name, [])
        if not defs:
            for real in sorted(self._enum_aliases.get(name, ())):
                defs = defs + self._enum_index.get(real, [])
        if vname is not None:
            defs = [d for d in defs if vname in d[1]]
        if not defs:
            return None
        if len(defs) > 1 and hint_file:
            same = [d for d in defs if d[0] == hint_file]
            if not same:
                hd = os.path.dirname(hint_file)
                same = [d for d in defs if os.path.dirname(d[0]) == hd]
            if same:
                defs = same
        first = defs[0][1]
        for d in defs[1:]:
            if d[1] != first:
                if vname is not None:
                    i0 = first[vname] if isinstance(first, dict) else first.index(vname)
                    i1 = d[1][vname] if isinstance(d[1], dict) else d[1].index(vname)
                    if i0 == i1:
                        continue
                raise Unsupported(f"ambiguous enum `{name}` ({[x[0] for x in defs][:4]})")
        return first


# ------------------------------------------------------------------ place/operand parsing
class Place:
    __slots__ = ("local", "proj")

    def __init__(self, local, proj):
        self.local = local
        self.proj = proj


_place_cache = {}


def parse_place(s):
    s = s.strip()
    r = _place_cache.get(s)
    if r is None:
        r = _parse_place(s)
        _place_cache[s] = r
    return r


def _parse_place(s):
    if re.fullmatch(r"_\d+", s):
        return Place(s, ())
    if s.endswith("]"):
        # index projection
        depth = 0
        k = len(s) - 1
        while k >= 0:
            if s[k] == "]":
                depth += 1
            elif s[k] == "[":
                depth -= 1
                if depth == 0:
                    break
            k -= 1
        base = parse_place(s[:k])
        idx = s[k + 1:-1].strip()
        m = re.fullmatch(r"(\d+) of (\d+)", idx)
        if m:
            return Place(base.local, base.proj + (("cindex", int(m.group(1))),))
        m = re.fullmatch(r"-(\d+) of (\d+)", idx)
        if m:
            return Place(base.local, base.proj + (("cindex_end", int(m.group(1))),))
        return Place(base.local, base.proj + (("index", idx),))
    if s.startswith("(") and _find_matching(s, 0) == len(s) - 1:
        inner = s[1:-1].strip()
        if inner.startswith("*"):
            b = parse_place(inner[1:])
            return Place(b.local, b.proj + (("deref",),))
        parts = split_top(inner, ": ")
        if len(parts) >= 2:
            left = parts[0]
            ty = ": ".join(parts[1:])
            base, idx = left.rsplit(".", 1)
            b = parse_place(base)
            return Place(b.local, b.proj + (("field", int(idx), ty),))
        parts = split_top(inner, " as ")
        if len(parts) == 2:
            b = parse_place(parts[0])
            return Place(b.local, b.proj + (("downcast", parts[1].strip()),))
    raise ValueError(f"cannot parse place: {s}")


BINOPS = {
    "Add", "Sub", "Mul", "Div", "Rem", "BitAnd", "BitOr", "BitXor", "Shl", "Shr", "Eq", "Ne", "Lt", "Le",
    "Gt", "Ge", "Cmp", "AddWithOverflow", "SubWithOverflow", "MulWithOverflow", "AddUnchecked",
    "SubUnchecked", "MulUnchecked", "ShlUnchecked", "ShrUnchecked", "Offset",
}
UNOPS = {"Not", "Neg", "PtrMetadata"}


def pow2(k):
    return 1 << k


# ------------------------------------------------------------------ the executor
class Frame:
    __slots__ = ("fn", "locals", "visits", "depth")

    def __init__(self, fn, depth):
        self.fn = fn
        self.locals = {}
        self.visits = {}
        self.depth = depth


class Ctx:
    """State shared by all paths of one exploration: symbol table, range constraints, config."""

    LIVE = None

    def __init__(self, prog):
        # interval simplification uses a global table of variable ranges: one live context at a time
        T.VAR_BOUNDS.clear()
        T._bcache.clear()
        if len(T._INTERN) > 2000000:
            T._INTERN.clear()
        Ctx.LIVE = self
        self.prog = prog
        self.decls = {}          # var name -> sort
        self.side = []           # global side constraints (ranges of symbols, lemmas)
        self.side_set = set()
        self.env_memo = {}       # (callee, argkey) -> value
        self.env = []            # [(regex, handler)]
        self.unwind = 8
        self.max_depth = 40
        self.max_paths = 4000
        self.uf_decls = {}       # uninterpreted functions name -> (ret sort, arg sorts)
        self.shift_consts = set()
        self.encoded = set()     # names of MIR functions executed (for evidence)
        self.env_used = set()
        self.counter = 0
        self.holders = []

    # -- symbols
    def add_side(self, c):
        if c is True or c in self.side_set:
            return
        self.side_set.add(c)
        self.side.append(c)

    def int(self, name, ty):
        name = sanitize(name)
        v = T.var(name, T.INT)
        if Ctx.LIVE is not self:
            raise RuntimeError("use of a stale exploration context")
        if name not in self.decls:
            self.decls[name] = T.INT
            lo, hi = ty_range(ty)
            self.add_side(T.and_(T.le(lo, v), T.le(v, hi)))
            T.VAR_BOUNDS[name] = (lo, hi)
        return IntV(v, ty)

    def bool(self, name):
        name = sanitize(name)
        self.decls[name] = T.BOOL
        return BoolV(T.var(name, T.BOOL))

    def fresh_of_type(self, name, ty):
        """symbolic value of a MIR type"""
        ty = ty.strip()
        it = int_type(ty) if not ty.startswith("&") else None
        if it is not None:
            return self.int(name, type_head(ty) if "::" in ty else ty)
        if ty == "bool":
            return self.bool(name)
        if ty == "()":
            return UNIT
        if ty.startswith("&"):
            inner = ty[1:].strip()
            if inner.startswith("'"):
                inner = inner.split(" ", 1)[1]
            if inner.startswith("mut "):
                inner = inner[4:]
            return self.ref_to(self.fresh_of_type(name + ".*", inner), inner)
        if ty.startswith("(") and ty.endswith(")"):
            parts = [p for p in split_top(ty[1:-1]) if p]
            return AggV(tuple(self.fresh_of_type(f"{name}.{i}", p) for i, p in enumerate(parts)), ty)
        h = type_head(ty)
        if h == "Option":
            inner = ty[ty.index("<") + 1:ty.rindex(">")]
            d = self.int(name + ".some", "u8")
            self.add_side(T.le(d.t, 1))
            return EnumV(d.t, ((1, (self.fresh_of_type(name + ".Some", inner),)),), ty)
        if h == "Ordering":
            d = self.int(name + ".ord", "i8")
            self.add_side(T.and_(T.le(-1, d.t), T.le(d.t, 1)))
            return EnumV(d.t, (), ty)
        return OpaqueV(sanitize(name), ty)

    def ref_to(self, val, ty=""):
        fr = Frame(None, 0)
        fr.locals["_h"] = val
        self.holders.append(fr)
        return RefV(fr, "_h", (), ty)


def sanitize(name):
    s = re.sub(r"[^A-Za-z0-9_.!$]", "_", name)
    if not re.match(r"[A-Za-z_]", s):
        s = "v" + s
    return s


class Exec:
    def __init__(self, ctx, prefix):
        self.ctx = ctx
        self.prog = ctx.prog
        self.prefix = prefix
        self.choices = []
        self.alts = []
        self.pc = []
        self.log = []
        self.top_frame = None
        self.steps = 0
        self.cur_fn = None

    def cur_file(self):
        fn = self.cur_fn
        if fn is None:
            return None
        m = re.search(r"([\w/\-\.]+\.rs):\d+:\d+", fn.name)
        return m.group(1) if m else None

    # ---------------------------------------------------------- branching
    def decide(self, cond):
        if isinstance(cond, BoolV):
            cond = cond.t
        if isinstance(cond, bool):
            return cond
        # already implied syntactically?
        for c in self.pc:
            if c == cond:
                return True
            if c == T.not_(cond):
                return False
        if getattr(self.ctx, "prune_with_solver", False):
            # optional: ask the solver whether both sides are feasible under the path condition (memoised per (pc, cond), so the
            # re-execution of a path prefix takes the same decisions); an undecided query counts as feasible
            key = (tuple(self.pc), cond)
            memo = self.ctx.__dict__.setdefault("_prune_memo", {})
            r = memo.get(key)
            if r is None:
                from . import smt as _smt
                def feas(c):
                    q = _smt.check("prune", self.ctx.decls, self.ctx.uf_decls, list(self.ctx.side) + list(self.pc) + [c], 5, want_model_of=(), solvers=("z3new",))
                    self.ctx.__dict__["_prune_queries"] = self.ctx.__dict__.get("_prune_queries", 0) + 1
                    return q.verdict != "unsat"
                ft = feas(cond)
                ff = feas(T.not_(cond)) if ft else True
                r = "both" if (ft and ff) else ("true" if ft else "false")
                memo[key] = r
            if r == "true":
                self.pc.append(cond)
                return True
            if r == "false":
                self.pc.append(T.not_(cond))
                return False
        i = len(self.choices)
        if i < len(self.prefix):
            ch = self.prefix[i]
        else:
            ch = True
            self.alts.append(self.choices + [False])
        self.choices.append(ch)
        self.pc.append(cond if ch else T.not_(cond))
        return ch

    def assume(self, cond):
        if cond is True:
            return
        self.pc.append(cond)

    # ---------------------------------------------------------- running functions
    def call_function(self, fn: Function, args, depth=0):
        if depth > self.ctx.max_depth:
            if getattr(self.ctx, "uninterpreted_unknown_calls", False) and fn.ret not in ("()", "!", ""):
                # dataflow obligations: cut deep call chains (accessor plumbing) with an uninterpreted result
                self.ctx.env_used.add("depth-cut:" + fn.short)
                return self.ctx.fresh_of_type(f"cut.{sanitize(fn.short)}.{len(self.choices)}_{self.steps}", fn.ret)
            raise Unsupported("call depth exceeded")
        self.ctx.encoded.add(fn.name)
        fr = Frame(fn, depth)
        if self.top_frame is None:
            self.top_frame = fr
        if len(args) != len(fn.params):
            raise Unsupported(f"arity mismatch calling {fn.name}: {len(args)} vs {len(fn.params)}")
        for (loc, ty), a in zip(fn.params, args):
            fr.locals[loc] = a
        bb = "bb0"
        while True:
            self.cur_fn = fn
            blk = fn.blocks[bb]
            v = fr.visits.get(bb, 0) + 1
            fr.visits[bb] = v
            if v > self.ctx.unwind:
                raise UnwindExceeded(f"{fn.short}:{bb}")
            for s in blk.stmts:
                self.exec_stmt(fr, s)
            nxt = self.exec_term(fr, blk.term)
            if nxt is None:
                return fr.locals.get("_0", UNIT)
            bb = nxt

    # ---------------------------------------------------------- places
    def local_ty(self, fr, local):
        return fr.fn.locals.get(local, "") if fr.fn is not None else ""

    def read_place(self, fr, pl: Place):
        if pl.local not in fr.locals:
            # uninitialised read (e.g. moved drop flags) -> materialise by type
            ty = self.local_ty(fr, pl.local)
            raise Unsupported(f"read of uninitialised local {pl.local}: {ty} in {fr.fn.short}")
        val = fr.locals[pl.local]
        return self.project(fr, val, pl.proj)

    def project(self, fr, val, proj):
        for p in proj:
            k = p[0]
            if k == "deref":
                if isinstance(val, RefV):
                    base = val.frame.locals[val.local]
                    val = self.project(val.frame, base, val.proj)
                elif isinstance(val, OpaqueV):
                    val = OpaqueV(val.name + ".*", deref_ty(val.ty))
                else:
                    # Box<T> modelled as the value itself
                    pass
            elif k == "field":
                val = self.field(val, p[1], p[2])
            elif k == "downcast":
                val = self.downcast(val, p[1])
            elif k == "cindex":
                if isinstance(val, SliceV):
                    val = self.byte_at(val, p[1])
                elif isinstance(val, ListV):
                    val = val.items[p[1]]
                else:
                    val = self.field(val, p[1], "")
            elif k == "index":
                idx = fr.locals[p[1]]
                if isinstance(val, SliceV) and isinstance(idx, IntV):
                    val = self.byte_at(val, idx.t)
                elif isinstance(val, ListV) and isinstance(idx, IntV) and isinstance(idx.t, int):
                    if idx.t >= len(val.items):
                        raise Panic("index out of bounds")
                    val = val.items[idx.t]
                elif isinstance(idx, IntV) and isinstance(idx.t, int) and isinstance(val, AggV):
                    val = val.fields[idx.t]
                elif isinstance(val, OpaqueV) and isinstance(idx, IntV):
                    # element of an opaque byte buffer: an unconstrained byte named after buffer and index
                    iname = str(idx.t) if isinstance(idx.t, int) else "sym"
                    val = self.ctx.int(f"{val.name}.at.{iname}", "u8")
                else:
                    raise Unsupported("symbolic index")
            else:
                raise Unsupported(f"projection {p}")
        return val

    def byte_at(self, sl, i):
        t = T.app(sl.buf, T.INT, T.add(sl.off, i))
        self.ctx.uf_decls[sl.buf] = (T.INT, (T.INT,))
        self.ctx.add_side(T.and_(T.le(0, t), T.le(t, 255)))
        return IntV(t, "u8")

    def field(self, val, idx, ty):
        if isinstance(val, CoroV):
            v = val.up(idx)
            if v is None:
                raise Unsupported(f"coroutine upvar {idx} not provided")
            return v
        if isinstance(val, _Down) and isinstance(val.e, CoroV):
            v = val.e.sv((val.variant, idx))
            if v is None:
                raise Unsupported(f"read of coroutine slot {val.variant}.{idx} before it was written")
            return v
        if isinstance(val, AggV):
            if idx >= len(val.fields):
                raise Unsupported(f"field {idx} of {val}")
            return val.fields[idx]
        if isinstance(val, OpaqueV):
            return self.ctx.fresh_of_type(f"{val.name}.{idx}", ty)
        if isinstance(val, _Overlay):
            if idx in val.over:
                return val.over[idx]
            return self.ctx.fresh_of_type(f"{val.base.name}.{idx}", ty)
        if isinstance(val, _Down):
            e, vname = val.e, val.variant
            if isinstance(e, EnumV):
                vi = self.variant_index(e.ty, vname)
                pay = e.payload(vi)
                if pay is None:
                    # payload unknown along this path (infeasible variant) -> fresh
                    return self.ctx.fresh_of_type(f"undef.{vname}.{idx}", ty)
                return pay[idx]
            if isinstance(e, OpaqueV):
                return self.ctx.fresh_of_type(f"{e.name}.{vname}.{idx}", ty)
        if isinstance(val, IntV) and idx == 0 and val.ty in ("U256", "U512", "U128"):
            # numext value modelled as one integer: `.0` is the little-endian array of u64 limbs
            n = {"U128": 2, "U256": 4, "U512": 8}[val.ty]
            return ListV(tuple(IntV(T.emod(T.ediv(val.t, 1 << (64 * i)), 1 << 64), "u64") for i in range(n)), "[u64; %d]" % n)
        if isinstance(val, IntV) and idx == 0:
            # newtype around an integer modelled directly
            return val
        raise Unsupported(f"field access .{idx} on {type(val).__name__} {val}")

    def downcast(self, val, variant):
        return _Down(val, variant)

    def variant_index(self, enum_ty, vname):
        h = type_head(enum_ty) if enum_ty else None
        vs = self.prog.enum_variants(h, vname, self.cur_file()) if h else None
        if vs is None:
            # try known enums by variant name
            for en, vv in ENUMS.items():
                if vname in vv:
                    vs = vv
                    break
        if vs is None:
            raise Unsupported(f"unknown enum {enum_ty} (variant {vname})")
        if isinstance(vs, dict):
            return vs[vname]
        return vs.index(vname)

    def write_place(self, fr, pl: Place, val):
        if not pl.proj:
            fr.locals[pl.local] = val
            return
        # resolve leading derefs to the target frame/local
        self._write(fr, pl.local, list(pl.proj), val)

    def _write(self, fr, local, proj, val):
        # find first deref
        for i, p in enumerate(proj):
            if p[0] == "deref":
                ref = self.project(fr, fr.locals[local], proj[:i])
                if isinstance(ref, RefV):
                    return self._write(ref.frame, ref.local, list(ref.proj) + proj[i + 1:], val)
                raise Unsupported("write through non-reference")
        cur = fr.locals.get(local)
        fr.locals[local] = self._update(cur, proj, val, self.local_ty(fr, local))

    def _update(self, cur, proj, val, ty):
        if not proj:
            return val
        p = proj[0]
        if isinstance(cur, CoroV):
            if p[0] == "field":
                ups = [(k, v) for k, v in cur.upvars if k != p[1]]
                ups.append((p[1], self._update(cur.up(p[1]), proj[1:], val, p[2])))
                return CoroV(cur.state, tuple(ups), cur.saved, cur.ty)
            if p[0] == "downcast" and len(proj) > 1 and proj[1][0] == "field":
                key = (p[1], proj[1][1])
                sv = [(k, v) for k, v in cur.saved if k != key]
                sv.append((key, self._update(cur.sv(key), proj[2:], val, proj[1][2])))
                return CoroV(cur.state, cur.upvars, tuple(sv), cur.ty)
        if p[0] in ("field", "cindex"):
            idx = p[1]
            if isinstance(cur, ListV) and p[0] == "cindex" and idx < len(cur.items):
                items = list(cur.items)
                items[idx] = self._update(items[idx], proj[1:], val, "")
                return ListV(tuple(items), cur.ty)
            if isinstance(cur, AggV):
                fs = list(cur.fields)
                while len(fs) <= idx:
                    fs.append(None)
                fs[idx] = self._update(fs[idx], proj[1:], val, p[2] if p[0] == "field" else "")
                return AggV(tuple(fs), cur.ty)
            if cur is None:
                fs = [None] * (idx + 1)
                fs[idx] = self._update(None, proj[1:], val, "")
                return AggV(tuple(fs), ty)
            if isinstance(cur, OpaqueV):
                # materialise as a sparse aggregate overlay
                return _Overlay(cur, {idx: self._update(None, proj[1:], val, "")})
            if isinstance(cur, _Overlay):
                d = dict(cur.over)
                d[idx] = self._update(d.get(idx), proj[1:], val, "")
                return _Overlay(cur.base, d)
            if isinstance(cur, IntV) and idx == 0 and not proj[1:]:
                return val
        if p[0] == "downcast":
            # writing enum payload field: (_x as Some).0 = v
            vname = p[1]
            vi = self.variant_index(ty, vname)
            pay = ()
            disc = None
            if isinstance(cur, EnumV):
                pay = cur.payload(vi) or ()
                disc = cur.disc
            inner = self._update(AggV(tuple(pay)), proj[1:], val, "")
            return EnumV(disc if disc is not None else vi, ((vi, inner.fields),), ty)
        raise Unsupported(f"write projection {proj} on {cur}")

    # ---------------------------------------------------------- operands
    def operand(self, fr, s, want_ty=None):
        s = s.strip()
        if s.startswith("copy ") or s.startswith("move "):
            return self.read_place(fr, parse_place(s[5:]))
        if s.startswith("const "):
            return self.constant(fr, s[6:].strip(), want_ty)
        # bare function item as operand, e.g. `Capacity::shannons`
        return FnV(s)

    def constant(self, fr, c, want_ty=None):
        m = re.fullmatch(r"(-?\d+)_([iu](?:8|16|32|64|128|size))", c)
        if m:
            return IntV(int(m.group(1)), m.group(2))
        if c == "true":
            return BoolV(True)
        if c == "false":
            return BoolV(False)
        if c == "()":
            return UNIT
        if c.startswith('"'):
            return StrV(c)
        if c.startswith("b\""):
            return StrV(c)
        if c in KNOWN_CONSTS:
            v, ty = KNOWN_CONSTS[c]
            return IntV(v, ty)
        m = re.fullmatch(r"ZeroSized: (.*)", c)
        if m:
            return AggV((), m.group(1))
        if c.startswith("{closure@"):
            return AggV((), c)
        if c.startswith("{alloc") or c.startswith("{transmute"):
            raise Unsupported(f"constant {c[:40]}")
        m = re.fullmatch(r"'(.)'", c)
        if m:
            return IntV(ord(m.group(1)), "u32")
        # constant enum/struct expression `Path::Variant(const args)`
        if c.endswith(")") and "::" in c and not c.startswith("("):
            k = c.index("(") if "<" not in c else None
            if k is None:
                depth = 0
                for i, ch in enumerate(c):
                    if ch == "<":
                        depth += 1
                    elif ch == ">" and c[i - 1] != "-":
                        depth -= 1
                    elif ch == "(" and depth == 0:
                        k = i
                        break
            if k is not None and _find_matching(c, k) == len(c) - 1:
                path = c[:k]
                inner = [a for a in split_top(c[k + 1:-1]) if a != ""]
                vals = tuple(self.constant(fr, a.strip()) for a in inner)
                return self._struct_or_variant(path, vals, want_ty or "")
        # `<impl>::NAME` / named constant: find a const body by suffix
        f = self.find_const(c, fr)
        if f is not None:
            return self.eval_const(f)
        # promoted reference
        # unit enum variant `path::Enum::Variant`
        segs = [x for x in split_top(c, "::") if not x.startswith("<")]
        if len(segs) >= 2:
            vname = segs[-1]
            ename = re.sub(r"<.*>", "", segs[-2])
            vs = self.prog.enum_variants(ename, vname, self.cur_file())
            if vs and vname in vs:
                vi = vs[vname] if isinstance(vs, dict) else vs.index(vname)
                return EnumV(vi, (), ename)
        if want_ty and int_type(want_ty) is None:
            return OpaqueV("const." + sanitize(c), want_ty or "")
        if c in ("RangeFull", "std::ops::RangeFull", "core::ops::RangeFull"):
            return AggV((), "RangeFull")
        if re.match(r"^(?:std::marker::|core::marker::)?PhantomData(::<.*>)?$", c) or c in ("std::alloc::Global", "alloc::alloc::Global", "Global"):
            return AggV((), "PhantomData")
        if re.fullmatch(r"[A-Za-z_][A-Za-z0-9_:]*", c) and getattr(self.ctx, "uninterpreted_unknown_calls", False):
            return OpaqueV("const." + sanitize(c), c)     # unit struct constant such as `RangeFull`
        raise Unsupported(f"constant `{c}`")

    def find_const(self, c, fr):
        consts = self.prog.consts
        if c in consts:
            return consts[c]
        # promoted[N] of the current function: `Type::method::promoted[5]`
        m = re.search(r"promoted\[(\d+)\]$", c)
        if m and fr.fn is not None:
            key = fr.fn.name + "::promoted[" + m.group(1) + "]"
            if key in consts:
                return consts[key]
        # named const `core::extras::EpochNumberWithFraction::LENGTH_OFFSET` vs def
        # `extras::<impl at ...>::LENGTH_OFFSET` : match by last segment + type name in impl header
        mq = re.match(r"^<(.+) as (.+)>::(\w+)$", c)
        if mq:
            last = mq.group(3)
            tyname = type_head(mq.group(1))
        else:
            segs = [x for x in split_top(c, "::") if not x.startswith("<'") and not re.fullmatch(r"<[^>]*>", x)]
            last = segs[-1]
            tyname = re.sub(r"<.*>", "", segs[-2]).strip() if len(segs) > 1 else None
        cands = []
        for name, f in consts.items():
            if name.endswith("::" + last) or name == last:
                cands.append(f)
        if len(cands) > 1 and tyname:
            c2 = []
            for f in cands:
                h = self.prog._impl_header(f) or ""
                if re.search(r"\b" + re.escape(tyname) + r"\b", h) or ("::" + tyname + "::") in ("::" + f.name):
                    c2.append(f)
            cands = c2
        if len(cands) == 1:
            return cands[0]
        if len(cands) > 1:
            # several definitions: acceptable only if they evaluate to the same value (same crate seen through two dumps)
            vals = []
            for f in cands:
                try:
                    vals.append(self.eval_const(f))
                except PathEnd:
                    vals.append(None)
            if all(v == vals[0] and v is not None for v in vals):
                return cands[0]
            raise Unsupported(f"ambiguous constant `{c}` ({len(cands)} definitions with different values)")
        return None

    def eval_const(self, f):
        key = ("const", f.name)
        memo = self.ctx.env_memo
        if key in memo:
            return memo[key]
        sub = Exec(self.ctx, [])
        sub.pc = self.pc  # constants are closed; no branching expected
        v = sub.call_function(f, [], depth=1)
        memo[key] = v
        return v

    # ---------------------------------------------------------- statements
    def exec_stmt(self, fr, s):
        self.steps += 1
        if " = " not in s or s.startswith("StorageLive") or s.startswith("StorageDead"):
            head = s.split("(", 1)[0]
            if head in ("StorageLive", "StorageDead", "nop", "FakeRead", "PlaceMention", "AscribeUserType", "Retag",
                        "Coverage", "ConstEvalCounter", "Deinit", "BackwardIncompatibleDropHint", "assume"):
                return
            if s == "nop" or s.startswith("//"):
                return
            raise Unsupported(f"statement `{s}`")
        lhs, rhs = s.split(" = ", 1)
        lhs = lhs.strip()
        if lhs.startswith("discriminant("):
            pl = parse_place(lhs[len("discriminant("):-1])
            cur = self.read_place(fr, pl) if pl.local in fr.locals else None
            ty = self.place_ty(fr, pl)
            vi = int(rhs.strip())
            if isinstance(cur, CoroV):
                self.write_place(fr, pl, CoroV(vi, cur.upvars, cur.saved, cur.ty))
                return
            pays = cur.payloads if isinstance(cur, EnumV) else ()
            self.write_place(fr, pl, EnumV(vi, pays, ty))
            return
        pl = parse_place(lhs)
        dty = self.place_ty(fr, pl)
        val = self.rvalue(fr, rhs.strip(), dty)
        self.write_place(fr, pl, val)

    def place_ty(self, fr, pl):
        if not pl.proj:
            return self.local_ty(fr, pl.local)
        last = pl.proj[-1]
        if last[0] == "field":
            return last[2]
        return ""

    def rvalue(self, fr, r, dty):
        # cast
        m = re.match(r"^(.*) as (.+?) \((\w+(?:\(.*\))?)\)$", r)
        if m and (r.startswith("copy ") or r.startswith("move ") or r.startswith("const ")):
            v = self.operand(fr, m.group(1))
            return self.cast(v, m.group(2).strip(), m.group(3))
        if r.startswith("copy ") or r.startswith("move ") or r.startswith("const "):
            return self.operand(fr, r, dty)
        if r.startswith("&"):
            rest = r[1:]
            for pre in ("raw const ", "raw mut ", "mut ", "fake shallow ", "fake "):
                if rest.startswith(pre):
                    rest = rest[len(pre):]
                    break
            if rest.startswith("(fake) "):        # `&raw const (fake) (*_x)`: address taken only for its metadata (slice length)
                rest = rest[len("(fake) "):]
            pl = parse_place(rest)
            return self.make_ref(fr, pl, dty)
        m = re.match(r"^([A-Za-z]+)\((.*)\)$", r)
        if m and m.group(1) in BINOPS:
            a, b = split_top(m.group(2))
            return self.binop(m.group(1), self.operand(fr, a), self.operand(fr, b), dty)
        if m and m.group(1) in UNOPS:
            return self.unop(m.group(1), self.operand(fr, m.group(2)), dty)
        if m and m.group(1) == "discriminant":
            v = self.read_place(fr, parse_place(m.group(2)))
            return self.discriminant(v, dty)
        if m and m.group(1) == "Len":
            v = self.read_place(fr, parse_place(m.group(2)))
            if isinstance(v, AggV):
                return IntV(len(v.fields), "usize")
            if isinstance(v, SliceV):
                return IntV(v.len, "usize")
            if isinstance(v, ListV):
                return IntV(len(v.items), "usize")
            raise Unsupported("Len of non-array")
        if r.startswith("(") and _find_matching(r, 0) == len(r) - 1:
            inner = r[1:-1].strip()
            parts = [p for p in split_top(inner) if p != ""]
            return AggV(tuple(self.operand(fr, p) for p in parts), dty)
        if r.startswith("SizeOf(") or r.startswith("AlignOf("):
            # only used to size a heap allocation that the executor models as a cell: the number itself is irrelevant
            return self.ctx.int(f"layout_{self.steps}_{len(self.ctx.decls)}", "usize")
        if r.startswith("["):
            inner = r[1:-1]
            rep = split_top(inner, "; ")
            if len(rep) == 2:
                n = rep[1].strip()
                mm = re.match(r"(?:const )?(\d+)(?:_usize)?$", n)
                if not mm:
                    raise Unsupported(f"array repeat count {n}")
                v = self.operand(fr, rep[0])
                return AggV(tuple([v] * int(mm.group(1))), dty)
            parts = [p for p in split_top(inner) if p != ""]
            return AggV(tuple(self.operand(fr, p) for p in parts), dty)
        return self.aggregate(fr, r, dty)

    def make_ref(self, fr, pl, dty):
        # normalise: a reference to (*_x).proj where _x is a reference -> point at the target
        proj = list(pl.proj)
        frame, local = fr, pl.local
        i = 0
        acc = []
        while i < len(proj):
            if proj[i][0] == "deref":
                base = self.project(frame, frame.locals[local], acc)
                if isinstance(base, RefV):
                    frame, local, acc = base.frame, base.local, list(base.proj)
                elif isinstance(base, OpaqueV):
                    # reference into opaque object: hold a materialised copy
                    rest = proj[i:]
                    val = self.project(frame, base, rest)
                    return self.ctx.ref_to(val, dty)
                else:
                    pass  # Box deref: stay
            elif proj[i][0] == "index" and frame is not fr and isinstance(fr.locals.get(proj[i][1]), IntV) and isinstance(fr.locals[proj[i][1]].t, int):
                # `&(*_x)[_i]` through a reference: the index local lives in THIS frame, the target in another one -> resolve a concrete index now
                acc.append(("cindex", fr.locals[proj[i][1]].t))
            else:
                acc.append(proj[i])
            i += 1
        return RefV(frame, local, acc, dty)

    def aggregate(self, fr, r, dty):
        # closure: `{closure@...} { cap: v, .. }`
        if r.startswith("{closure@") or r.startswith("{coroutine@"):
            k = _find_matching(r, 0, "{", "}")
            cty = r[:k + 1]
            rest = r[k + 1:].strip()
            fields = ()
            if rest.startswith("{"):
                inner = rest[1:-1].strip()
                ops = [p.split(": ", 1)[1] for p in split_top(inner) if p]
                # rustc's MIR printer zips the names of the captured *variables* with the operand list: when a variable is captured field by field (precise captures,
                # `filter_options.a`, `filter_options.b`, ..) there are fewer names than operands and the printed list is cut short.  The closure body's debug info tells the real
                # number of upvars; the missing operands are the temporaries numbered after the printed ones (they are assigned right before the aggregate in the same block).
                cf = self.prog.closures.get(cty)
                want = None
                if cf is not None:
                    idx = [int(m_.group(1)) for pl_ in cf.debug.values() for m_ in [re.match(r"^\(?\*?\(?\(\*_1\)\.(\d+): ", pl_)] if m_]
                    want = max(idx) + 1 if idx else None
                if want is not None and len(ops) < want:
                    nums = [re.fullmatch(r"(move|copy) _(\d+)", o) for o in ops]
                    # (when the pattern is not recognised the printed operands are kept: a later access to a missing capture ends the path as unsupported, never silently)
                    if all(nums) and [int(m_.group(2)) for m_ in nums] == list(range(int(nums[0].group(2)), int(nums[0].group(2)) + len(ops))):
                        first = int(nums[0].group(2))
                        if all(f"_{first + i}" in fr.locals for i in range(want)):
                            ops = [f"move _{first + i}" for i in range(want)]
                fields = tuple(self.operand(fr, o) for o in ops)
            return AggV(fields, cty)
        # struct with named fields: `Path { a: x, b: y }`
        m = re.match(r"^(.*?) \{ (.*) \}$", r)
        if m and not r.startswith("("):
            path = m.group(1)
            fields = []
            for p in split_top(m.group(2)):
                if not p:
                    continue
                nm, v = p.split(": ", 1)
                fields.append(self.operand(fr, v))
            return self._struct_or_variant(path, tuple(fields), dty)
        # tuple-like: `Path(a, b)` or unit `Path`
        if r.endswith(")"):
            # find the last top-level '('
            depth = 0
            k = len(r) - 1
            while k >= 0:
                if r[k] == ")":
                    depth += 1
                elif r[k] == "(":
                    depth -= 1
                    if depth == 0:
                        break
                k -= 1
            path = r[:k]
            args = [p for p in split_top(r[k + 1:-1]) if p != ""]
            return self._struct_or_variant(path, tuple(self.operand(fr, a) for a in args), dty)
        return self._struct_or_variant(r, (), dty)

    def _struct_or_variant(self, path, fields, dty):
        segs = split_top(path, "::")
        last = re.sub(r"<.*>$", "", segs[-1]).strip()
        dh = type_head(dty) if dty else ""
        if dh and last == dh:
            # struct constructor; integer newtypes stay aggregates (Capacity(u64), EpochNumberWithFraction(u64))
            return AggV(fields, dty)
        # enum variant
        ename = dh or (re.sub(r"<.*>$", "", segs[-2]) if len(segs) > 1 else "")
        vs = self.prog.enum_variants(ename, last, self.cur_file())
        if vs is None and len(segs) > 1:
            ename = re.sub(r"<.*>$", "", segs[-2]).strip()
            vs = self.prog.enum_variants(ename, last, self.cur_file())
        if vs is not None and last in vs:
            vi = vs[last] if isinstance(vs, dict) else vs.index(last)
            return EnumV(vi, ((vi, fields),), dty or ename)
        if not dh:
            return AggV(fields, path)
        if not fields and vs is None:
            # unit variant of an enum defined outside /repo: an opaque tag
            return OpaqueV("enumconst." + sanitize(path), dty)
        if vs is None:
            # variant with payload of an enum defined outside /repo: keep the payload, tag by path
            return AggV(fields, path)
        raise Unsupported(f"aggregate `{path}` for type `{dty}`")

    def discriminant(self, v, dty):
        if isinstance(v, CoroV):
            return IntV(v.state, dty or "u32")
        if isinstance(v, EnumV):
            return IntV(v.disc, dty or "isize")
        if isinstance(v, OpaqueV):
            h = type_head(v.ty)
            vs = self.prog.enum_variants(h)
            d = self.ctx.int(v.name + ".disc", "u8")
            if vs is not None and not isinstance(vs, dict):
                self.ctx.add_side(T.lt(d.t, len(vs)))
            return IntV(d.t, dty or "isize")
        raise Unsupported(f"discriminant of {v}")

    # ---------------------------------------------------------- arithmetic
    def wrap(self, t, ty):
        bits, signed = INT_TYPES[ty]
        if isinstance(t, int):
            t &= (1 << bits) - 1
            if signed and t >= 1 << (bits - 1):
                t -= 1 << bits
            return t
        if signed:
            h = 1 << (bits - 1)
            return T.sub(T.emod(T.add(t, h), 1 << bits), h)
        return T.emod(t, 1 << bits)

    def in_range(self, t, ty):
        lo, hi = ty_range(ty)
        return T.and_(T.le(lo, t), T.le(t, hi))

    def binop(self, op, a, b, dty):
        if isinstance(a, BoolV) and isinstance(b, BoolV):
            x, y = a.t, b.t
            if op == "Eq":
                return BoolV(T.eq(x, y))
            if op == "Ne":
                return BoolV(T.ne(x, y))
            if op == "BitAnd":
                return BoolV(T.and_(x, y))
            if op == "BitOr":
                return BoolV(T.or_(x, y))
            if op == "BitXor":
                return BoolV(T.ne(x, y))
            raise Unsupported(f"bool binop {op}")
        if isinstance(a, EnumV) and isinstance(b, EnumV) and not a.payloads and not b.payloads:
            a = IntV(a.disc, "isize")
            b = IntV(b.disc, "isize")
        if not (isinstance(a, IntV) and isinstance(b, IntV)):
            raise Unsupported(f"binop {op} on {type(a).__name__},{type(b).__name__}")
        ty = a.ty
        x, y = a.t, b.t
        if op in ("Eq", "Ne", "Lt", "Le", "Gt", "Ge"):
            f = {"Eq": T.eq, "Ne": T.ne, "Lt": T.lt, "Le": T.le, "Gt": T.gt, "Ge": T.ge}[op]
            return BoolV(f(x, y))
        if op == "Cmp":
            return mk_ordering(x, y)
        if op in ("AddWithOverflow", "SubWithOverflow", "MulWithOverflow"):
            raw = {"A": T.add, "S": T.sub, "M": T.mul}[op[0]](x, y)
            inr = self.in_range(raw, ty)
            val = T.ite(inr, raw, self.wrap(raw, ty))
            return AggV((IntV(val, ty), BoolV(T.not_(inr))), f"({ty}, bool)")
        if op in ("Add", "Sub", "Mul"):
            raw = {"A": T.add, "S": T.sub, "M": T.mul}[op[0]](x, y)
            return IntV(self.wrap(raw, ty), ty)
        if op in ("AddUnchecked", "SubUnchecked", "MulUnchecked"):
            raw = {"A": T.add, "S": T.sub, "M": T.mul}[op[0]](x, y)
            return IntV(raw, ty)
        bits, signed = INT_TYPES[ty]
        if op in ("Div", "Rem"):
            if signed:
                # truncating division via absolute values
                ax = T.ite(T.lt(x, 0), T.neg(x), x)
                ay = T.ite(T.lt(y, 0), T.neg(y), y)
                q = T.ediv(ax, ay)
                neg = T.ne(T.lt(x, 0), T.lt(y, 0))
                qq = T.ite(neg, T.neg(q), q)
                if op == "Div":
                    return IntV(self.wrap(qq, ty), ty)
                return IntV(T.sub(x, T.mul(qq, y)), ty)
            return IntV(T.ediv(x, y) if op == "Div" else T.emod(x, y), ty)
        if op in ("Shl", "ShlUnchecked", "Shr", "ShrUnchecked"):
            if isinstance(y, int):
                k = y % bits
                self.ctx.shift_consts.add(k)
                if op.startswith("Shl"):
                    if signed:
                        return IntV(self.wrap(T.mul(x, 1 << k), ty), ty)
                    return IntV(T.emod(T.mul(x, 1 << k), 1 << bits), ty)
                return IntV(T.ediv(x, 1 << k), ty)   # floor division: arithmetic shift for signed too
            # symbolic amount: ite chain over 0..bits-1 (masking as Rust does for unchecked shifts)
            ym = T.emod(y, bits)
            res = None
            for k in range(bits - 1, -1, -1):
                if op.startswith("Shl"):
                    e = self.wrap(T.mul(x, 1 << k), ty)
                else:
                    e = T.ediv(x, 1 << k)
                res = e if res is None else T.ite(T.eq(ym, k), e, res)
            return IntV(res, ty)
        if op in ("BitAnd", "BitOr", "BitXor"):
            if isinstance(x, int) and isinstance(y, int):
                xx, yy = x & ((1 << bits) - 1), y & ((1 << bits) - 1)
                r = {"BitAnd": xx & yy, "BitOr": xx | yy, "BitXor": xx ^ yy}[op]
                return IntV(self.wrap(r, ty), ty)
            if op == "BitAnd" and not signed:
                for c, o in ((x, y), (y, x)):
                    if isinstance(c, int) and c >= 0 and (c & (c + 1)) == 0:
                        return IntV(T.emod(o, c + 1), ty)      # mask 2^k-1
                    if isinstance(c, int) and c >= 0:
                        # contiguous mask ((1<<hi)-1) ^ ((1<<lo)-1)
                        lo = (c & -c).bit_length() - 1
                        top = c >> lo
                        if top & (top + 1) == 0:
                            hi = lo + top.bit_length()
                            return IntV(T.mul(T.emod(T.ediv(o, 1 << lo), 1 << (hi - lo)), 1 << lo), ty)
            if op == "BitAnd" and signed:
                for c, o in ((x, y), (y, x)):
                    if isinstance(c, int) and c >= 0 and (c & (c + 1)) == 0:
                        return IntV(T.emod(o, c + 1), ty)      # two's complement low bits == mod 2^k
            return IntV(self.bit_uf(op, x, y, ty), ty)
        raise Unsupported(f"binop {op}")

    def bit_uf(self, op, x, y, ty):
        """uninterpreted bitwise op with sound lemmas (over-approximation: unsat results are valid)"""
        bits, signed = INT_TYPES[ty]
        name = {"BitAnd": "bvand", "BitOr": "bvor", "BitXor": "bvxor"}[op] + str(bits) + ("s" if signed else "")
        self.ctx.uf_decls[name] = (T.INT, (T.INT, T.INT))
        r = T.app(name, T.INT, x, y)
        lo, hi = ty_range(ty)
        self.ctx.add_side(T.and_(T.le(lo, r), T.le(r, hi)))
        if not signed:
            if op == "BitOr":
                self.ctx.add_side(T.and_(T.le(x, r), T.le(y, r), T.le(r, T.add(x, y))))
                for k in sorted(self.ctx.shift_consts | {8, 16, 24, 32, 40, 48, 56}):
                    p = 1 << k
                    self.ctx.add_side(T.implies(T.and_(T.eq(T.emod(x, p), 0), T.lt(y, p)), T.eq(r, T.add(x, y))))
                    self.ctx.add_side(T.implies(T.and_(T.eq(T.emod(y, p), 0), T.lt(x, p)), T.eq(r, T.add(x, y))))
            elif op == "BitAnd":
                self.ctx.add_side(T.and_(T.le(r, x), T.le(r, y)))
            elif op == "BitXor":
                self.ctx.add_side(T.le(r, T.add(x, y)))
        elif op == "BitAnd":
            # two's complement: for non-negative operands the result is non-negative and not above either operand
            self.ctx.add_side(T.implies(T.le(0, x), T.and_(T.le(0, r), T.le(r, x))))
            self.ctx.add_side(T.implies(T.le(0, y), T.and_(T.le(0, r), T.le(r, y))))
        return r

    def unop(self, op, a, dty):
        if op == "Not":
            if isinstance(a, BoolV):
                return BoolV(T.not_(a.t))
            if isinstance(a, IntV):
                bits, signed = INT_TYPES[a.ty]
                if signed:
                    return IntV(T.sub(-1, a.t), a.ty)
                return IntV(T.sub((1 << bits) - 1, a.t), a.ty)
        if op == "Neg" and isinstance(a, IntV):
            return IntV(self.wrap(T.neg(a.t), a.ty), a.ty)
        if op == "PtrMetadata":
            if isinstance(a, IntV):
                return a
            if isinstance(a, SliceV):
                return IntV(a.len, "usize")
            if isinstance(a, RefV):
                try:
                    tg = self.project(a.frame, a.frame.locals[a.local], a.proj)
                    if isinstance(tg, SliceV):
                        return IntV(tg.len, "usize")
                    if isinstance(tg, ListV):
                        return IntV(len(tg.items), "usize")
                except PathEnd:
                    raise
                except Exception:
                    pass
            # length of a slice behind a reference: an unconstrained usize named after the referent
            tgt = a
            if isinstance(a, RefV):
                try:
                    tgt = self.project(a.frame, a.frame.locals[a.local], a.proj)
                except Exception:
                    tgt = a
            nm_ = getattr(tgt, "name", None) or f"anon{len(self.ctx.decls)}"
            return self.ctx.int("len." + nm_, "usize")
        raise Unsupported(f"unop {op} on {a}")

    def cast(self, v, ty, kind):
        if kind == "IntToInt":
            tgt = type_head(ty) if "::" in ty else ty
            if isinstance(v, BoolV):
                return IntV(T.ite(v.t, 1, 0), tgt)
            if isinstance(v, EnumV):
                return IntV(self.wrap(v.disc, tgt), tgt)
            if isinstance(v, IntV):
                if tgt == "bool":
                    return BoolV(T.ne(v.t, 0))
                slo, shi = ty_range(v.ty)
                tlo, thi = ty_range(tgt)
                if tlo <= slo and shi <= thi:
                    return IntV(v.t, tgt)
                return IntV(self.wrap(v.t, tgt), tgt)
        if kind == "Subtype":      # lifetime-only subtyping: no run-time effect
            return v
        if kind in ("Transmute", "PtrToPtr", "FnPtrToPtr") or kind.startswith("PointerCoercion"):
            if kind == "Transmute" and ty.strip().startswith("*"):
                # NonNull<T> / Unique<T> -> raw pointer: the wrapper's only field
                w = v
                for _ in range(4):
                    if isinstance(w, AggV) and len(w.fields) >= 1 and not isinstance(w, RefV):
                        w = w.fields[0]
                if isinstance(w, RefV):
                    return w
            return v
        raise Unsupported(f"cast {kind} to {ty} of {v}")

    # ---------------------------------------------------------- terminators
    def exec_term(self, fr, t):
        self.steps += 1
        if t.startswith("goto -> "):
            return t[8:].strip()
        if t == "return":
            return None
        if t == "unreachable":
            raise Unreachable(f"{fr.fn.short}")
        if t.startswith("switchInt("):
            k = _find_matching(t, len("switchInt"))
            op = t[len("switchInt("):k]
            v = self.operand(fr, op)
            tg = t[k + 1:].strip()
            assert tg.startswith("-> ["), t
            targets = split_top(tg[4:-1])
            otherwise = None
            cases = []
            for x in targets:
                kk, bb = x.split(": ")
                if kk.strip() == "otherwise":
                    otherwise = bb.strip()
                else:
                    cases.append((int(kk), bb.strip()))
            if isinstance(v, BoolV):
                for kk, bb in cases:
                    c = T.not_(v.t) if kk == 0 else v.t
                    if self.decide(c):
                        return bb
                if otherwise is None:
                    raise Unsupported("switch fallthrough")
                return otherwise
            if isinstance(v, EnumV):
                v = IntV(v.disc, "isize")
            if not isinstance(v, IntV):
                raise Unsupported(f"switchInt on {v}")
            bits, signed = INT_TYPES.get(v.ty, (64, False))
            for kk, bb in cases:
                if signed and kk >= 1 << (bits - 1):
                    kk -= 1 << bits
                # discriminants of fieldless enums with negative values are printed as unsigned bits of
                # their repr (i8 for Ordering): 255 == -1
                if not signed and v.ty == "isize" and kk >= 128 and kk < 256:
                    pass
                c = T.eq(v.t, kk)
                if v.ty == "isize" and kk == 255:
                    c = T.or_(T.eq(v.t, 255), T.eq(v.t, -1))
                if self.decide(c):
                    return bb
            if otherwise is None:
                raise Unsupported("switch fallthrough")
            return otherwise
        if t.startswith("assert("):
            k = _find_matching(t, len("assert"))
            inner = t[len("assert("):k]
            parts = split_top(inner)
            cond = parts[0].strip()
            negate = False
            if cond.startswith("!"):
                negate = True
                cond = cond[1:]
            v = self.operand(fr, cond)
            c = v.t if isinstance(v, BoolV) else None
            if c is None:
                raise Unsupported("assert on non-bool")
            if negate:
                c = T.not_(c)
            if self.decide(c):
                # overflow check passed: the tuple `(wrapped value, flag)` of the checked operation now holds the exact value
                mo = re.match(r"^(?:move |copy )?\((_\d+)\.1: bool\)$", cond) if negate else None
                if mo and mo.group(1) in fr.locals:
                    tup = fr.locals[mo.group(1)]
                    if isinstance(tup, AggV) and len(tup.fields) == 2 and isinstance(tup.fields[0], IntV) and isinstance(tup.fields[1], BoolV):
                        vt = tup.fields[0].t
                        if isinstance(vt, tuple) and vt[0] == "ite" and T.not_(vt[2]) == tup.fields[1].t:
                            fr.locals[mo.group(1)] = AggV((IntV(vt[3], tup.fields[0].ty), BoolV(False)), tup.ty)
                m = re.search(r"success: (bb\d+)", t[k:])
                return m.group(1)
            raise Panic("assert: " + (parts[1].strip() if len(parts) > 1 else ""))
        if t.startswith("drop("):
            m = re.search(r"return: (bb\d+)", t)
            if m:
                return m.group(1)
            m = re.search(r"-> (bb\d+)", t)
            return m.group(1)
        if t.startswith("resume") or t.startswith("abort") or t.startswith("terminate"):
            raise Panic("unwind")
        if t.startswith("falseEdge") or t.startswith("falseUnwind"):
            m = re.search(r"real: (bb\d+)", t)
            return m.group(1)
        # call
        return self.exec_call(fr, t)

    def exec_call(self, fr, t):
        idx = _last_top_arrow(t)
        if idx < 0:
            raise Unsupported(f"terminator `{t}`")
        left, right = t[:idx].strip(), t[idx + 4:].strip()
        dest = None
        if " = " in left and _is_assign(left):
            # split at the first ` = ` outside any bracket (the destination place may carry a type with `#`, `{}`, `()`: coroutine slots)
            depth = 0
            cut = -1
            for i, ch in enumerate(left):
                if ch in "([{":
                    depth += 1
                elif ch in ")]}":
                    depth -= 1
                elif ch == "=" and depth == 0 and left[i - 1:i + 2] == " = ":
                    cut = i - 1
                    break
            if cut > 0:
                d, left = left[:cut], left[cut + 3:]
                dest = parse_place(d.strip())
        # callee and args
        assert left.endswith(")"), t
        depth = 0
        k = len(left) - 1
        while k >= 0:
            if left[k] == ")":
                depth += 1
            elif left[k] == "(":
                depth -= 1
                if depth == 0:
                    break
            k -= 1
        callee = left[:k].strip()
        argtxt = left[k + 1:-1]
        args_s = [a for a in split_top(argtxt) if a != ""]
        dty = self.place_ty(fr, dest) if dest is not None else "!"
        args = [self.operand(fr, a) for a in args_s]
        m = re.search(r"return: (bb\d+)", right)
        nxt = m.group(1) if m else None
        if nxt is None:
            m = re.fullmatch(r"(bb\d+)", right)
            nxt = m.group(1) if m else None
        val = self.do_call(fr, callee, args, dty)
        if nxt is None:
            raise Panic(f"diverging call {callee} returned")
        if dest is not None:
            self.write_place(fr, dest, val)
        return nxt

    def do_call(self, fr, callee, args, dty):
        from . import builtins as B
        # indirect call through a local (fn pointer / closure value)
        if callee.startswith("move ") or callee.startswith("copy "):
            fv = self.read_place(fr, parse_place(callee[5:]))
            return self.call_value(fr, fv, args, dty)
        # environment symbols declared by the obligation
        for rx, handler in self.ctx.env:
            if rx.search(callee):
                r = handler(self, callee, args, dty)
                if r is ENV_PASS:        # the handler declines this call (wrong value kind): try the next one
                    continue
                self.ctx.env_used.add(rx.pattern)
                return r
        r = B.try_builtin(self, fr, callee, args, dty)
        if r is not B.NOT_BUILTIN:
            return r
        # provided comparison methods of PartialOrd for types whose `Ord::cmp` is in the dumps
        mo = re.match(r"^<(.+) as (?:std::cmp::|core::cmp::)?PartialOrd>::(lt|le|gt|ge)$", callee)
        if mo and B.try_builtin(self, fr, callee, args, dty) is B.NOT_BUILTIN:
            fnc = self.resolve(f"<{mo.group(1)} as Ord>::cmp", args)
            if fnc is not None:
                o = self.call_function(fnc, args, fr.depth + 1)
                d = o.disc
                return BoolV({"lt": T.eq(d, -1), "le": T.ne(d, 1), "gt": T.eq(d, 1), "ge": T.ne(d, -1)}[mo.group(2)])
        # provided `Ord::max` / `Ord::min` (std: max_by/min_by over `Ord::cmp`; on Equal max returns the second, min the first)
        mo = re.match(r"^<(.+) as (?:std::cmp::|core::cmp::)?Ord>::(max|min)$", callee)
        if mo and len(args) == 2:
            fnc = self.resolve(f"<{mo.group(1)} as Ord>::cmp", args)
            if fnc is not None:
                o = self.call_function(fnc, [self.ctx.ref_to(args[0]), self.ctx.ref_to(args[1])], fr.depth + 1)
                first = T.eq(o.disc, 1) if mo.group(2) == "max" else T.ne(o.disc, 1)
                return args[0] if self.decide(first) else args[1]
        # blanket `impl<T, U: From<T>> Into<U> for T`
        mi = re.match(r"^<(.+) as (?:std::|core::)?(?:convert::)?Into<(.+)>>::into$", callee)
        if mi:
            callee2 = f"<{mi.group(2)} as From<{mi.group(1)}>>::from"
            r = B.try_builtin(self, fr, callee2, args, dty)
            if r is not B.NOT_BUILTIN:
                return r
            fn = self.resolve(callee2, args)
            if fn is not None:
                return self.call_function(fn, args, fr.depth + 1)
            if not getattr(self.ctx, "uninterpreted_unknown_calls", False):
                raise Unsupported(f"unresolved call `{callee}`")
        fn = self.resolve(callee, args)
        if fn is None:
            if getattr(self.ctx, "uninterpreted_unknown_calls", False):
                # dataflow obligations: an unknown callee is an uninterpreted function of its (opaque) arguments
                from .builtins import deref as _d
                names = []
                for a in args:
                    a = _d(self, a)
                    names.append(getattr(a, "name", None) or type(a).__name__)
                self.ctx.env_used.add("uninterpreted:" + callee)
                return self.ctx.fresh_of_type("uf." + sanitize(callee.split("::")[-1]) + "(" + ",".join(names) + ")", dty) if dty not in ("()", "!", "") else UNIT
            raise Unsupported(f"unresolved call `{callee}`")
        return self.call_function(fn, args, fr.depth + 1)

    def call_value(self, fr, fv, args, dty):
        """call a function value (FnV or closure AggV) with explicit args"""
        if isinstance(fv, RefV):
            fv = self.project(fv.frame, fv.frame.locals[fv.local], fv.proj)
        if isinstance(fv, FnV):
            return self.do_call(fr, fv.name, args, dty)
        if isinstance(fv, AggV) and fv.ty.startswith("{closure@"):
            fn = self.prog.closures.get(fv.ty)
            if fn is None:
                raise Unsupported(f"closure body not found {fv.ty}")
            self_arg = fv
            if fn.params[0][1].startswith("&"):
                self_arg = self.ctx.ref_to(fv, fv.ty)
            return self.call_function(fn, [self_arg] + list(args), fr.depth + 1)
        raise Unsupported(f"call of value {fv}")

    def resolve(self, callee, args):
        """map a callee path as printed at the call site to a Function of the dumps"""
        c = callee
        # `<T as Trait>::method` / `<T as Trait<..>>::method::<..>`
        c = re.sub(r"::<[^<>]*(?:<[^<>]*(?:<[^<>]*>[^<>]*)*>[^<>]*)*>$", "", c)  # trailing turbofish
        trait = None
        tyname = None
        m = re.match(r"^<(.+) as (.+?)>::([A-Za-z_0-9]+)$", c)
        trait_arg = None
        if m:
            tyname = type_head(m.group(1))
            trait = type_head(m.group(2))
            if "<" in m.group(2):
                ta = m.group(2)[m.group(2).index("<") + 1:m.group(2).rindex(">")]
                trait_arg = type_head(split_top(ta)[0]) if ta else None
            name = m.group(3)
        else:
            segs = [x for x in split_top(c, "::") if not re.fullmatch(r"<'[^>]*>", x)]
            name = segs[-1]
            if len(segs) > 1:
                tyname = type_head(re.sub(r"^<|>$", "", segs[-2])) if not segs[-2].startswith("<impl") else None
                if segs[-2].startswith("<impl"):
                    mm = re.match(r"<impl (.*)>", segs[-2])
                    tyname = type_head(mm.group(1)) if mm else None
        name = re.sub(r"<.*>$", "", name)
        cands = [f for f in self.prog.by_short.get(name, []) if len(f.params) == len(args)]
        if not cands:
            return None

        def header_has(f, word):
            h = f.impl_header or ""
            return re.search(r"\b" + re.escape(word) + r"\b", h) is not None

        generic_self = tyname is not None and re.fullmatch(r"[A-Z]|Self", tyname or "") is not None
        if generic_self and args:
            # generic receiver: dispatch on the runtime type of the first argument
            a0 = args[0]
            if isinstance(a0, RefV):
                a0 = self.project(a0.frame, a0.frame.locals[a0.local], a0.proj)
            rt = getattr(a0, "ty", None)
            tyname = type_head(rt) if rt else None
        c2 = cands
        if trait:
            c2 = [f for f in c2 if header_has(f, trait)]
            # `impl Trait<Arg> for Type`: trait (and its argument) left of ` for `, the type right of it
            def split_ok(f):
                h = f.impl_header or ""
                if " for " not in h:
                    return False
                left, right = h.split(" for ", 1)
                if not re.search(r"\b" + re.escape(trait) + r"\b", left):
                    return False
                if trait_arg and not re.search(r"\b" + re.escape(trait_arg) + r"\b", left):
                    return False
                if tyname and not re.fullmatch(r"[A-Z]|Self", tyname) and not re.search(r"\b" + re.escape(tyname) + r"\b", right):
                    return False
                return True
            c3 = [f for f in c2 if split_ok(f)]
            if c3:
                c2 = c3
        if tyname:
            c3 = [f for f in c2 if header_has(f, tyname) or (f.impl_span is None and ("::" + tyname + "::") in ("::" + f.name))]
            if c3:
                c2 = c3
            elif trait is None:
                # free function in a module path (`module::func`)
                c2 = [f for f in c2 if f.impl_span is None]
        if trait is None and len(c2) > 1:
            inh = [f for f in c2 if " for " not in (f.impl_header or "")]
            if len(inh) >= 1:
                c2 = inh
        if len(c2) > 1 and args:
            # filter by first param type head vs runtime arg type
            a0 = args[0]
            rt = getattr(a0, "ty", None)
            if rt:
                c4 = [f for f in c2 if type_head(f.params[0][1]) == type_head(rt)]
                if c4:
                    c2 = c4
        if len(c2) > 1 and tyname:
            # derive-generated impls (header is just the derive token): decide by the return / first parameter type
            c5 = [f for f in c2 if type_head(f.ret) == tyname or (f.params and type_head(f.params[0][1]) == tyname)]
            if c5:
                c2 = c5
            elif all(not header_has(f, tyname) for f in c2):
                return None     # none of the candidates is an impl for this type: the callee is not in the loaded dumps
        if len(c2) == 1:
            return c2[0]
        if len(c2) > 1:
            names = {(f.name, f.crate) for f in c2}
            if len({f.name for f in c2}) == 1:
                return c2[0]
            if getattr(self.ctx, "uninterpreted_unknown_calls", False):
                return None     # dataflow obligations: an unresolvable callee is an uninterpreted function
            raise Unsupported(f"ambiguous call `{callee}`: {[f.name for f in c2][:4]}")
        return None


class _Down:
    """enum value viewed as a variant (result of a Downcast projection)"""
    __slots__ = ("e", "variant")

    def __init__(self, e, variant):
        self.e = e
        self.variant = variant


@dataclass(frozen=True)
class _Overlay:
    base: OpaqueV
    over: dict

    def __hash__(self):
        return hash((self.base, tuple(sorted(self.over.items(), key=lambda kv: kv[0]))))


def deref_ty(ty):
    ty = ty.strip()
    if ty.startswith("&"):
        ty = ty[1:].strip()
        if ty.startswith("'"):
            ty = ty.split(" ", 1)[1]
        if ty.startswith("mut "):
            ty = ty[4:]
    return ty


def _last_top_arrow(s):
    depth = 0
    i = 0
    last = -1
    in_str = False
    while i < len(s):
        c = s[i]
        if in_str:
            if c == "\\":
                i += 1
            elif c == '"':
                in_str = False
        elif c == '"':
            in_str = True
        elif c in "([{":
            depth += 1
        elif c in ")]}":
            depth -= 1
        elif depth == 0 and s.startswith(" -> ", i):
            last = i
        i += 1
    return last


def _is_assign(left):
    # `DEST = callee(...)`: DEST is a place (starts with `_` or `(`)
    return left.startswith("_") or left.startswith("(")


# ------------------------------------------------------------------ exploration driver
class Driver:
    """a python-level sequence of calls explored like one function: `body(ex)` calls `ex.call_function(f, args)` several times (histories of operations on one state);
    every fork inside any of the calls is explored, the path condition accumulates across the calls"""

    def __init__(self, name, body):
        self.name = self.short = name
        self.debug = {}
        self.params = []
        self.body = body
        self.kind = "fn"


def explore(ctx: Ctx, fn: Function, args, capture_debug=True):
    work = [[]]
    paths = []
    # cells behind `&mut` arguments (ctx.ref_to) are mutated by the execution: every path starts from the same initial
    # contents and records its own final contents (Path.post); afterwards the cells hold the last returning path's state
    init = [(fr, dict(fr.locals)) for fr in ctx.holders]
    while work:
        prefix = work.pop()
        for fr, loc in init:
            fr.locals = dict(loc)
        ex = Exec(ctx, prefix)
        outcome, value = None, None
        try:
            value = fn.body(ex) if isinstance(fn, Driver) else ex.call_function(fn, list(args))
            outcome = "return"
        except Panic as p:
            outcome, value = "panic", p.msg
        except Stop as s:
            outcome, value = "stop", s.info
        except UnwindExceeded as u:
            outcome, value = "unwind", u.where
        except Unreachable as u:
            outcome, value = "unreachable", u.where
        except Unsupported as u:
            outcome, value = "unsupported", u.what
        dbg = {}
        if capture_debug and ex.top_frame is not None:
            for name, pl in fn.debug.items():
                try:
                    dbg[name] = ex.read_place(ex.top_frame, parse_place(pl))
                except Exception:
                    pass
        pth = Path(list(ex.pc), outcome, value, ex.log, dbg)
        pth.post = {id(fr): dict(fr.locals) for fr, _ in init}
        paths.append(pth)
        work.extend(ex.alts)
        if len(paths) > ctx.max_paths:
            paths.append(Path([], "unsupported", "too many paths"))
            break
    last = [p for p in paths if p.outcome == "return" and getattr(p, "post", None)]
    if last:
        for fr, _ in init:
            fr.locals = dict(last[-1].post[id(fr)])
    return paths


def post_value(ctx, path, ref):
    """contents of the cell behind `ref` (a ctx.ref_to reference) at the end of `path`"""
    fr = ref.frame
    saved = fr.locals
    fr.locals = dict(path.post[id(fr)])
    try:
        from .builtins import deref
        return deref(Exec(ctx, []), ref)
    finally:
        fr.locals = saved
