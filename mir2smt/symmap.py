"""Association-list model of `HashMap` / `HashSet` / `BTreeMap` with SYMBOLIC keys (environment handlers for engine M).

A map value is `MapV(items)`: a tuple of (key term, cell) in insertion order, where the key term is an SMT Int term (the identity symbol of an opaque key such as a hash, or the
value of an integer key; tuple keys are tuples of terms) and the cell is a heap reference holding the value, so `&mut V` handed out by `entry().or_default()` / `get_mut` aliases the
stored value.  Every lookup compares the searched key with the stored keys one by one with `ex.decide(key = stored)`: the executor forks, the solver prunes infeasible
combinations, and an obligation over the key symbols therefore quantifies over EVERY aliasing pattern of the keys (every shape of the relation the keys describe).
Invariant kept by construction: stored keys are pairwise different on the current path (an insert first looks the key up).

Iteration order of the real containers is arbitrary; the model iterates in insertion order, so obligations must be stated order-insensitively (sets / multisets).
"""
from __future__ import annotations
import re
from . import terms as T
from .exec import IntV, BoolV, AggV, EnumV, OpaqueV, RefV, ListV, UNIT, Stop, mk_option, ENV_PASS
from .builtins import deref, _wr
from .envlib import rx, ident, _owned, _is_it, _rest


class MapV:
    __slots__ = ("items", "ty", "is_set")

    def __init__(self, items=(), ty="HashMap", is_set=False):
        self.items = tuple(items)
        self.ty = ty
        self.is_set = is_set

    def __repr__(self):
        return f"MapV({len(self.items)} items, {self.ty})"


class KeyTuple(tuple):
    """composite key (terms are tuples themselves, so composite keys need their own type)"""


def key_term(ex, v):
    """identity term(s) of a key value"""
    v = deref(ex, v) if isinstance(v, RefV) else v
    if isinstance(v, IntV):
        return v.t
    if isinstance(v, OpaqueV):
        return ident(ex, v)
    if isinstance(v, AggV):
        return KeyTuple(key_term(ex, x) for x in v.fields)
    if isinstance(v, EnumV) and isinstance(v.disc, int) and not v.payloads:
        return v.disc
    raise Stop(f"map key without identity: {str(v)[:80]}")


def key_eq(a, b):
    if isinstance(a, KeyTuple) or isinstance(b, KeyTuple):
        if not (isinstance(a, KeyTuple) and isinstance(b, KeyTuple) and len(a) == len(b)):
            raise Stop("map keys of different shapes")
        return T.and_(*[key_eq(x, y) for x, y in zip(a, b)])
    return T.eq(a, b)


def _map(ex, ref):
    m = deref(ex, ref)
    if not isinstance(m, MapV):
        return None
    return m


def _find(ex, m, k):
    """index of the entry whose key equals k on this path (forks), or None"""
    for i, it_ in enumerate(m.items):
        c = key_eq(k, it_[0])
        hit = c if isinstance(c, bool) else ex.decide(c)
        if hit:
            return i
    return None


def _val(ex, cell):
    return deref(ex, cell)


def handlers(key_rx=r".*", default_value=None, owned_keys=None):
    """environment handlers for HashMap / HashSet whose key type matches `key_rx` (regex on the printed type).
    `default_value(ex, dty)`: value created by `entry().or_default()` (default: an empty MapV / ListV by type)"""
    K = key_rx

    def new(ex, c, a, d):
        is_set = "HashSet" in c or "BTreeSet" in c
        return MapV((), d or c, is_set)

    def mk_default(ex, c, d):
        if default_value is not None:
            return default_value(ex, c, d)
        if "HashMap<" in c.split("or_default")[0].split(",", 1)[-1] or "HashSet<" in c.split(",", 1)[-1]:
            return MapV((), "inner", "HashSet<" in c.split(",", 1)[-1])
        return ListV((), "Vec<?>")

    def entry(ex, c, a, d):
        m = _map(ex, a[0])
        if m is None:
            return ENV_PASS
        kv = key_term_box(ex, a[1])
        i = _find(ex, m, key_term(ex, kv))
        e = AggV((a[0], AggV((kv,), "keybox"), (m.items[i][1] if i is not None else UNIT)), "SymEntry")
        btree = "BTreeMap" in c
        occupied = i is not None
        disc = (1 if occupied else 0) if btree else (0 if occupied else 1)
        return EnumV(disc, ((disc, (e,)),), "BTreeEntry" if btree else "Entry")

    def _entry_of(v):
        if isinstance(v, EnumV) and v.payloads:
            v = v.payloads[0][1][0]
        return v if isinstance(v, AggV) and v.ty == "SymEntry" else None

    def vacant_insert(ex, c, a, d):
        e = _entry_of(a[0])
        if e is None:
            return ENV_PASS
        mref, kbox, _ = e.fields
        kv = kbox.fields[0]
        m = _map(ex, mref)
        v = deref(ex, a[1]) if isinstance(a[1], RefV) else a[1]
        cell = ex.ctx.ref_to(v)
        _wr(ex, mref, MapV(m.items + ((key_term(ex, kv), cell, kv),), m.ty, m.is_set))
        return cell

    def occupied_get(ex, c, a, d):
        e = _entry_of(a[0])
        if e is None:
            return ENV_PASS
        cell = e.fields[2]
        if c.endswith("::insert"):
            old = _val(ex, cell)
            _wr(ex, cell, deref(ex, a[1]) if isinstance(a[1], RefV) else a[1])
            return old
        return cell if not c.endswith("::remove") else ENV_PASS

    def key_term_box(ex, v):
        # keep the key value (not only its term) so that `iter` can yield it back
        return deref(ex, v) if isinstance(v, RefV) else v

    def or_default(ex, c, a, d):
        e = _entry_of(a[0])
        if e is None:
            return ENV_PASS
        mref, kbox, _ = e.fields
        kv = kbox.fields[0]
        k = key_term(ex, kv)
        m = _map(ex, mref)
        i = _find(ex, m, k)
        if i is not None:
            return m.items[i][1]
        if "or_insert_with" in c:
            init = ex.call_value(ex.top_frame, a[1], [], "?")
        elif "or_insert" in c and len(a) > 1:
            init = deref(ex, a[1]) if isinstance(a[1], RefV) else a[1]
        else:
            init = mk_default(ex, c, d)
        cell = ex.ctx.ref_to(init)
        _wr(ex, mref, MapV(m.items + ((k, cell, kv),), m.ty, m.is_set))
        return cell

    def insert(ex, c, a, d):
        m = _map(ex, a[0])
        if m is None:
            return ENV_PASS
        kv = deref(ex, a[1]) if isinstance(a[1], RefV) else a[1]
        k = key_term(ex, kv)
        i = _find(ex, m, k)
        if m.is_set:
            if i is not None:
                return BoolV(False)
            _wr(ex, a[0], MapV(m.items + ((k, None, kv),), m.ty, True))
            return BoolV(True)
        v = deref(ex, a[2]) if isinstance(a[2], RefV) else a[2]
        if i is not None:
            old = _val(ex, m.items[i][1])
            _wr(ex, m.items[i][1], v)
            return mk_option(True, old, d)
        _wr(ex, a[0], MapV(m.items + ((k, ex.ctx.ref_to(v), kv),), m.ty, False))
        return mk_option(False, None, d)

    def remove(ex, c, a, d):
        m = _map(ex, a[0])
        if m is None:
            return ENV_PASS
        k = key_term(ex, a[1])
        i = _find(ex, m, k)
        if i is None:
            return BoolV(False) if m.is_set else mk_option(False, None, d)
        it = m.items[i]
        _wr(ex, a[0], MapV(m.items[:i] + m.items[i + 1:], m.ty, m.is_set))
        if m.is_set:
            return BoolV(True)
        return mk_option(True, _val(ex, it[1]), d)

    def get(ex, c, a, d):
        m = _map(ex, a[0])
        if m is None:
            return ENV_PASS
        k = key_term(ex, a[1])
        i = _find(ex, m, k)
        if c.endswith("contains_key") or re.search(r"::contains(::<.*>)?$", c) or "contains_key::<" in c:
            return BoolV(i is not None)
        if i is None:
            return mk_option(False, None, d)
        return mk_option(True, m.items[i][1], d)

    def length(ex, c, a, d):
        m = _map(ex, a[0])
        if m is None:
            return ENV_PASS
        if "is_empty" in c:
            return BoolV(len(m.items) == 0)
        return IntV(len(m.items), "usize")

    def it(ex, c, a, d):
        m = _map(ex, a[0])
        if m is None:
            return ENV_PASS
        byref = isinstance(a[0], RefV) and "into_iter" not in c.split("::")[-1] or ("<&" in c)
        out = []
        for k, cell, kv in m.items:
            if m.is_set or re.search(r"::keys$|::into_keys$", c):
                out.append(ex.ctx.ref_to(kv) if byref else kv)
            elif re.search(r"::values(_mut)?$", c):
                out.append(cell if byref else _val(ex, cell))
            else:
                out.append(AggV((ex.ctx.ref_to(kv), cell), "(&K, &V)") if byref else AggV((kv, _val(ex, cell)), "(K, V)"))
        return _owned(out)

    def clone(ex, c, a, d):
        m = _map(ex, a[0])
        if m is None:
            return ENV_PASS
        return MapV(tuple((k, (ex.ctx.ref_to(_val(ex, cell)) if cell is not None else None), kv) for k, cell, kv in m.items), m.ty, m.is_set)

    def noop(ex, c, a, d):
        if _map(ex, a[0]) is None:
            return ENV_PASS
        if "capacity" in c:
            return IntV(0, "usize")
        return UNIT

    def clear(ex, c, a, d):
        m = _map(ex, a[0])
        if m is None:
            return ENV_PASS
        _wr(ex, a[0], MapV((), m.ty, m.is_set))
        return UNIT
    H = r"(?:std::collections::|ckb_util::)?(?:Linked)?(?:Hash|BTree)(?:Map|Set)::<" + K
    return [
        (rx(H + r".*>::(new|with_capacity|default)$|^<(?:std::collections::|ckb_util::)?(?:Linked)?(?:Hash|BTree)(?:Map|Set)<" + K + r".*> as Default>::default$"), new),
        (rx(H + r".*>::entry$"), entry),
        (rx(r"Entry::<'_, " + K + r".*>::(or_default|or_insert_with::<.*|or_insert)$"), or_default),
        (rx(r"VacantEntry::<'_, " + K + r".*>::insert$"), vacant_insert),
        (rx(r"OccupiedEntry::<'_, " + K + r".*>::(get|get_mut|into_mut|insert)$"), occupied_get),
        (rx(H + r".*>::insert$"), insert),
        (rx(H + r".*>::remove(::<.*>)?$"), remove),
        (rx(H + r".*>::(get|get_mut|contains_key|contains)(::<.*>)?$"), get),
        (rx(H + r".*>::(len|is_empty)$"), length),
        (rx(H + r".*>::(iter|iter_mut|keys|values|values_mut|into_keys|into_values)$|^<&?(?:'\w+ )?(?:mut )?(?:std::collections::|ckb_util::)?(?:Linked)?(?:Hash|BTree)(?:Map|Set)<" + K + r".*> as (?:std::iter::|core::iter::)?IntoIterator>::into_iter$"), it),
        (rx(r"^<(?:std::collections::)?(?:Hash|BTree)(?:Map|Set)<" + K + r".*> as Clone>::clone$"), clone),
        (rx(H + r".*>::(shrink_to_fit|capacity|reserve|shrink_to)$"), noop),
        (rx(H + r".*>::clear$"), clear),
    ]


# ---------------------------------------------------------------- helpers used together with the maps
def it_unzip(ex, c, a, d):
    """Iterator::unzip over a list iterator of pairs -> (Vec<A>, Vec<B>)"""
    it = deref(ex, a[0])
    if not _is_it(it):
        return ENV_PASS
    xs, ys = [], []
    for p in _rest(ex, it):
        p = deref(ex, p) if isinstance(p, RefV) else p
        xs.append(p.fields[0])
        ys.append(p.fields[1])
    return AggV((ListV(tuple(xs), "Vec<?>"), ListV(tuple(ys), "Vec<?>")), d or "(Vec, Vec)")


def coll_extend(ex, c, a, d):
    """Vec / VecDeque ::extend with a list or list iterator"""
    tgt = deref(ex, a[0])
    src = deref(ex, a[1]) if isinstance(a[1], RefV) else a[1]
    if not isinstance(tgt, ListV):
        return ENV_PASS
    if isinstance(src, ListV):
        items = list(src.items)
    elif _is_it(src):
        items = _rest(ex, src)
    else:
        return ENV_PASS
    _wr(ex, a[0], ListV(tgt.items + tuple(items), tgt.ty))
    return UNIT


def vd_pop_front(ex, c, a, d):
    q = deref(ex, a[0])
    if not isinstance(q, ListV):
        return ENV_PASS
    if not q.items:
        return mk_option(False, None, d)
    _wr(ex, a[0], ListV(q.items[1:], q.ty))
    return mk_option(True, q.items[0], d)


def vd_new(ex, c, a, d):
    return ListV((), d or "VecDeque<?>")


def opt_unwrap_or_default_set(ex, c, a, d):
    """Option<HashSet/HashMap>::unwrap_or_default"""
    o = a[0]
    if not isinstance(o, EnumV):
        return ENV_PASS
    some = o.disc == 1 if isinstance(o.disc, int) else ex.decide(T.eq(o.disc, 1))
    if some:
        return o.payload(1)[0]
    return MapV((), d or "HashSet", "Set<" in c)


def _insert_kv(ex, m, kv, val):
    """m with (kv -> val) inserted (replacing an equal key); forks on key equality"""
    k = key_term(ex, kv)
    i = _find(ex, m, k)
    if m.is_set:
        return m if i is not None else MapV(m.items + ((k, None, kv),), m.ty, True)
    if i is not None:
        _wr(ex, m.items[i][1], val)
        return m
    return MapV(m.items + ((k, ex.ctx.ref_to(val), kv),), m.ty, False)


def it_collect_hashed(ex, c, a, d):
    """Iterator::collect::<HashSet<_>> / ::<HashMap<_, _>> over a list iterator (of keys / of (key, value) pairs)"""
    it = deref(ex, a[0])
    if not _is_it(it):
        return ENV_PASS
    is_set = bool(re.search(r"collect::<(?:std::collections::|ckb_util::)?(?:Linked)?(?:Hash|BTree)Set<", c))
    m = MapV((), d or c, is_set)
    for x in _rest(ex, it):
        x = deref(ex, x) if isinstance(x, RefV) else x
        if is_set:
            m = _insert_kv(ex, m, x, None)
        else:
            m = _insert_kv(ex, m, x.fields[0], x.fields[1])
    return m


def map_extend(ex, c, a, d):
    """HashMap::extend / HashSet::extend with another model map, a list or a list iterator"""
    m = _map(ex, a[0])
    if m is None:
        return ENV_PASS
    src = deref(ex, a[1]) if isinstance(a[1], RefV) else a[1]
    if isinstance(src, MapV):
        pairs = [(kv, (deref(ex, cell) if cell is not None else None)) for _, cell, kv in src.items]
    elif isinstance(src, ListV) or _is_it(src):
        items = list(src.items) if isinstance(src, ListV) else _rest(ex, src)
        pairs = []
        for x in items:
            x = deref(ex, x) if isinstance(x, RefV) else x
            pairs.append((x, None) if m.is_set else (x.fields[0], x.fields[1]))
    else:
        return ENV_PASS
    for kv, val in pairs:
        m = _insert_kv(ex, m, kv, val)
    _wr(ex, a[0], m)
    return UNIT


EXTRAS = [
    (rx(r" as (?:std::iter::|core::iter::)?Iterator>::collect::<(?:std::collections::|ckb_util::)?(?:Linked)?(?:Hash|BTree)(?:Set|Map)<"), it_collect_hashed),
    (rx(r"^<(?:std::collections::)?(?:Hash|BTree)(?:Set|Map)<.*> as Extend<.*>>::extend::<"), map_extend),
    (rx(r"^Option::<(?:std::collections::)?(?:Hash|BTree)(?:Map|Set)<.*>>::unwrap_or_default$"), opt_unwrap_or_default_set),
    (rx(r" as (?:std::iter::|core::iter::)?Iterator>::unzip::<"), it_unzip),
    (rx(r"^<(?:std::collections::)?(?:VecDeque|Vec)<.*> as Extend<.*>>::extend::<"), coll_extend),
    (rx(r"VecDeque::<.*>::pop_front$"), vd_pop_front),
    (rx(r"VecDeque::<.*>::(new|with_capacity)$"), vd_new),
]
