"""Composition obligations: a composite verifier accepts only if every one of its parts was run and accepted.

The parts (`X::verify`, `Y::check`, ...) are environment symbols returning a `Result` whose Ok-ness is a fresh boolean
`ok.<tag>.<k>` (k-th call of that part on the path); the composite's own MIR is executed, so a dropped call, a dropped `?`,
a swapped condition or an early `return Ok(())` shows up as an accepting path that misses a part or ignores its verdict."""
from __future__ import annotations
from . import terms as T
from . import envlib as E
from .exec import AggV, EnumV, OpaqueV, UNIT
from .parser import split_top
from .ob import Inconclusive, returns, panics, cond_of


def _result_types(dty):
    d = dty.strip()
    if not (d.startswith("Result<") or d.startswith("std::result::Result<") or d.startswith("core::result::Result<")):
        return None
    inner = d[d.index("<") + 1:d.rindex(">")]
    parts = [p.strip() for p in split_top(inner) if p.strip()]
    if len(parts) != 2:
        return None
    return parts


def part(tag, value=None):
    """handler for one part; `value(ex, k, ty)` may supply the Ok payload (default: fresh value of the Ok type)"""
    def h(ex, callee, args, dty):
        k = sum(1 for e in ex.log if e[0] == "part:" + tag)
        rt = _result_types(dty)
        if rt is None:
            raise Inconclusive(f"part {tag}: `{callee}` does not return a Result ({dty})")
        okb = ex.ctx.bool(f"ok.{tag}.{k}")
        ex.log.append(("part:" + tag, callee, [E.snapshot(ex, a) for a in args], list(ex.pc)))
        if value is not None:
            val = value(ex, k, rt[0])
        else:
            val = UNIT if rt[0] == "()" else ex.ctx.fresh_of_type(f"val.{tag}.{k}", rt[0])
        return EnumV(T.ite(okb.t, 0, 1), ((0, (val,)), (1, (OpaqueV(f"err.{tag}.{k}", rt[1]),))), dty)
    return h


def parts_env(specs):
    """specs: list of (tag, regex)"""
    return [(E.rx(r), part(tag)) for tag, r in specs]


def called(path, tag):
    return [e for e in path.log if e[0] == "part:" + tag]


def ok_cond(p):
    v = p.value
    return T.eq(v.disc, 0) if isinstance(v, EnumV) else True


def check(S, ctx, ob, label, ps, required, assume=(), complete_when=None, optional=()):
    """required: tags that every accepting path must have run (and, via the path condition, found Ok).
    complete_when: extra assumptions under which `all parts Ok` must imply acceptance (None = skip the converse)."""
    rs = returns(ps)
    if not rs:
        raise Inconclusive(f"{label}: no returning path")
    S.prove(ctx, ob, f"{label}_no_panic", list(assume), T.not_(cond_of(panics(ps))))
    ok_all = []
    seen_tags = set()
    for p in rs:
        for e in p.log:
            if e[0].startswith("part:"):
                seen_tags.add(e[0][5:])
    missing_everywhere = [t for t in required if t not in seen_tags]
    # 1. every accepting path ran every required part
    bad = []
    for p in rs:
        miss = [t for t in required if not called(p, t)]
        if miss:
            bad.append(T.and_(p.cond(), ok_cond(p)))
    S.prove(ctx, ob, f"{label}_accepting_paths_run_every_part", list(assume), T.not_(T.or_(*bad)) if bad else True,
            extra={"note": f"required parts: {list(required)}; never called: {missing_everywhere}"})
    # 2. ... and accepted only if each part it ran said Ok
    viol = []
    for p in rs:
        oks = []
        for t in list(required) + list(optional):
            for k in range(len(called(p, t))):
                oks.append(ctx.bool(f"ok.{t}.{k}").t)
        viol.append(T.and_(p.cond(), ok_cond(p), T.not_(T.and_(*oks)) if oks else False))
    S.prove(ctx, ob, f"{label}_accepts_only_if_every_part_accepts", list(assume), T.not_(T.or_(*viol)))
    # 3. converse: nothing else rejects
    if complete_when is not None:
        allok = []
        for t in list(required) + list(optional):
            n = max([len(called(p, t)) for p in ps] + [0])
            for k in range(n):
                allok.append(ctx.bool(f"ok.{t}.{k}").t)
        accept = T.or_(*[T.and_(p.cond(), ok_cond(p)) for p in rs])
        S.prove(ctx, ob, f"{label}_accepts_when_every_part_accepts", list(assume) + list(complete_when) + allok, accept)
    # vacuity: some accepting path exists
    S.witness(ctx, ob, f"{label}_reach_accept", list(assume), T.or_(*[T.and_(p.cond(), ok_cond(p)) for p in rs]))
