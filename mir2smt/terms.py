"""SMT term DAG (integer theory) with constant folding.

A term is either a Python int / bool (constant) or a tuple (op, sort, *args).
Sorts: 'Int', 'Bool'.  Rust machine integers are modelled as mathematical
integers constrained to their range; wrapping is an explicit `mod`.
"""
from __future__ import annotations

INT = "Int"
BOOL = "Bool"


def is_const(t):
    return isinstance(t, (int, bool))


def sort_of(t):
    if isinstance(t, bool):
        return BOOL
    if isinstance(t, int):
        return INT
    return t[1]


class Tm(tuple):
    """term node: a tuple whose hash is computed once (sub-terms are Tm too, so hashing a DAG is linear in its size instead of
    exponential in its depth -- e.g. the value chain of `index -= step` in a loop)"""

    def __hash__(self):
        try:
            return self.__dict__["_h"]
        except KeyError:
            h = tuple.__hash__(self)
            self.__dict__["_h"] = h
            return h

    def __eq__(self, other):
        if self is other:
            return True
        if isinstance(other, Tm) and hash(self) != hash(other):
            return False
        return tuple.__eq__(self, other)

    def __ne__(self, other):
        r = self.__eq__(other)
        return r if r is NotImplemented else not r


_INTERN = {}


def _intern(t):
    r = _INTERN.get(t)
    if r is None:
        _INTERN[t] = t
        return t
    return r


def var(name, sort=INT):
    return _intern(Tm(("var", sort, name)))


# known ranges of variables (name -> (lo, hi)); filled by Ctx.int; only used for sound simplification
VAR_BOUNDS = {}
_bcache = {}


def bounds(t):
    """conservative interval (lo, hi) of an Int term; None = unbounded on that side"""
    if isinstance(t, bool):
        return (None, None)
    if isinstance(t, int):
        return (t, t)
    r = _bcache.get(t)
    if r is not None:
        return r
    r = _bounds(t)
    if len(_bcache) > 200000:
        _bcache.clear()
    _bcache[t] = r
    return r


def _bounds(t):
    op = t[0]
    if op == "var":
        return VAR_BOUNDS.get(t[2], (None, None))
    if op == "+":
        (a, b), (c, d) = bounds(t[2]), bounds(t[3])
        return (None if a is None or c is None else a + c, None if b is None or d is None else b + d)
    if op == "-":
        (a, b), (c, d) = bounds(t[2]), bounds(t[3])
        return (None if a is None or d is None else a - d, None if b is None or c is None else b - c)
    if op == "*":
        (a, b), (c, d) = bounds(t[2]), bounds(t[3])
        if None in (a, b, c, d):
            if a is not None and c is not None and a >= 0 and c >= 0:
                return (a * c, None)
            return (None, None)
        ps = (a * c, a * d, b * c, b * d)
        return (min(ps), max(ps))
    if op == "div":
        (a, b), (c, d) = bounds(t[2]), bounds(t[3])
        if c is not None and c > 0 and a is not None and a >= 0:
            hi = None if b is None else b // c
            lo = 0 if d is None else a // d
            return (lo, hi)
        return (None, None)
    if op == "mod":
        (a, b), (c, d) = bounds(t[2]), bounds(t[3])
        if c is not None and c > 0 and d is not None:
            if a is not None and a >= 0 and b is not None and b < c:
                return (a, b)
            return (0, d - 1)
        if c is not None and c > 0 and a is not None and a >= 0:
            return (0, b)
        return (None, None)
    if op == "ite":
        (a, b), (c, d) = bounds(t[3]), bounds(t[4])
        return (None if a is None or c is None else min(a, c), None if b is None or d is None else max(b, d))
    return (None, None)


def _mk(op, sort, *args):
    # hash-consing: structurally equal terms are one object, so equality tests between terms built on different paths are shallow
    return _intern(Tm((op, sort) + tuple(args)))


# ---------------------------------------------------------------- integer ops
def add(a, b):
    if is_const(a) and is_const(b):
        return a + b
    if a == 0:
        return b
    if b == 0:
        return a
    return _mk("+", INT, a, b)


def sub(a, b):
    if is_const(a) and is_const(b):
        return a - b
    if b == 0:
        return a
    if a == b:
        return 0
    return _mk("-", INT, a, b)


def mul(a, b):
    if is_const(a) and is_const(b):
        return a * b
    if a == 0 or b == 0:
        return 0
    if a == 1:
        return b
    if b == 1:
        return a
    return _mk("*", INT, a, b)


def ediv(a, b):
    """SMT-LIB `div` (Euclidean). For non-negative operands equals Rust `/`."""
    if is_const(a) and is_const(b) and b != 0:
        q = a // b if b > 0 else -(a // -b)
        return q
    if b == 1:
        return a
    return _mk("div", INT, a, b)


def emod(a, b):
    if is_const(a) and is_const(b) and b != 0:
        return a % abs(b)
    if b == 1:
        return 0
    if isinstance(b, int) and b > 0 and not is_const(a):
        lo, hi = bounds(a)
        if lo is not None and hi is not None and lo >= 0 and hi < b:
            return a
    return _mk("mod", INT, a, b)


def neg(a):
    if is_const(a):
        return -a
    return _mk("-", INT, 0, a)


def ite(c, a, b):
    if isinstance(c, bool):
        return a if c else b
    if a == b and type(a) == type(b):
        return a
    s = sort_of(a)
    if s == BOOL:
        if a is True and b is False:
            return c
        if a is False and b is True:
            return not_(c)
        if a is True:
            return or_(c, b)
        if a is False:
            return and_(not_(c), b)
        if b is False:
            return and_(c, a)
        if b is True:
            return or_(not_(c), a)
    return _mk("ite", s, c, a, b)


# ---------------------------------------------------------------- comparisons
def _cmp(op, pyop, a, b):
    if is_const(a) and is_const(b):
        return pyop(a, b)
    (al, ah), (bl, bh) = bounds(a), bounds(b)
    if op == "<":
        if ah is not None and bl is not None and ah < bl:
            return True
        if al is not None and bh is not None and al >= bh:
            return False
    elif op == "<=":
        if ah is not None and bl is not None and ah <= bl:
            return True
        if al is not None and bh is not None and al > bh:
            return False
    return _mk(op, BOOL, a, b)


def lt(a, b):
    return _cmp("<", lambda x, y: x < y, a, b)


def le(a, b):
    if a == b and not is_const(a):
        return True
    return _cmp("<=", lambda x, y: x <= y, a, b)


def gt(a, b):
    return lt(b, a)


def ge(a, b):
    return le(b, a)


def eq(a, b):
    if is_const(a) and is_const(b):
        return a == b and isinstance(a, bool) == isinstance(b, bool)
    if a == b:
        return True
    if sort_of(a) == INT and sort_of(b) == INT:
        (al, ah), (bl, bh) = bounds(a), bounds(b)
        if (ah is not None and bl is not None and ah < bl) or (al is not None and bh is not None and al > bh):
            return False
    # distribute over ite with a constant on the other side (discriminant tests)
    if is_const(b) and not is_const(a) and a[0] == "ite" and _const_leaves(a):
        return ite(a[2], eq(a[3], b), eq(a[4], b))
    if is_const(a) and not is_const(b) and b[0] == "ite" and _const_leaves(b):
        return ite(b[2], eq(b[3], a), eq(b[4], a))
    if sort_of(a) == BOOL:
        if isinstance(b, bool):
            return a if b else not_(a)
        if isinstance(a, bool):
            return b if a else not_(b)
    return _mk("=", BOOL, a, b)


def _const_leaves(t):
    if is_const(t):
        return True
    if t[0] == "ite":
        return _const_leaves(t[3]) and _const_leaves(t[4])
    return False


def ne(a, b):
    return not_(eq(a, b))


# ---------------------------------------------------------------- booleans
def not_(a):
    if isinstance(a, bool):
        return not a
    if a[0] == "not":
        return a[2]
    return _mk("not", BOOL, a)


def and_(*xs):
    out = []
    for x in xs:
        if x is True:
            continue
        if x is False:
            return False
        if not isinstance(x, bool) and x[0] == "and":
            out.extend(x[2:])
        else:
            out.append(x)
    # dedupe, keep order
    seen = set()
    o2 = []
    for x in out:
        if x in seen:
            continue
        seen.add(x)
        o2.append(x)
    for x in o2:
        if not_(x) in seen:
            return False
    if not o2:
        return True
    if len(o2) == 1:
        return o2[0]
    return _mk("and", BOOL, *o2)


def or_(*xs):
    out = []
    for x in xs:
        if x is False:
            continue
        if x is True:
            return True
        if not isinstance(x, bool) and x[0] == "or":
            out.extend(x[2:])
        else:
            out.append(x)
    seen = set()
    o2 = []
    for x in out:
        if x in seen:
            continue
        seen.add(x)
        o2.append(x)
    if not o2:
        return False
    if len(o2) == 1:
        return o2[0]
    return _mk("or", BOOL, *o2)


def implies(a, b):
    return or_(not_(a), b)


def iff(a, b):
    return eq(a, b)


def app(fname, sort, *args):
    """Application of an uninterpreted (declared) function."""
    return _mk("app", sort, fname, *args)


def imin(a, b):
    return ite(le(a, b), a, b)


def imax(a, b):
    return ite(le(a, b), b, a)


# ---------------------------------------------------------------- printing
def to_smt(t, cache=None):
    """Print as SMT-LIB2 text (tree form with let-free sharing via cache of strings)."""
    if cache is None:
        cache = {}
    return _p(t, cache)


def _p(t, cache):
    if isinstance(t, bool):
        return "true" if t else "false"
    if isinstance(t, int):
        return str(t) if t >= 0 else f"(- {-t})"
    k = id(t)
    r = cache.get(t)
    if r is not None:
        return r
    op = t[0]
    if op == "var":
        r = t[2]
    elif op == "app":
        if len(t) == 3:
            r = t[2]
        else:
            r = "(" + t[2] + " " + " ".join(_p(a, cache) for a in t[3:]) + ")"
    else:
        r = "(" + op + " " + " ".join(_p(a, cache) for a in t[2:]) + ")"
    cache[t] = r
    return r


def free_vars(t, acc=None, seen=None):
    if acc is None:
        acc = {}
    if seen is None:
        seen = set()
    stack = [t]
    while stack:
        x = stack.pop()
        if is_const(x):
            continue
        if x in seen:
            continue
        seen.add(x)
        if x[0] == "var":
            acc[x[2]] = x[1]
        elif x[0] == "app":
            stack.extend(x[3:])
        else:
            stack.extend(x[2:])
    return acc


def apps(t, acc=None, seen=None):
    """collect uninterpreted applications: name -> (sort, arg sorts)"""
    if acc is None:
        acc = {}
    if seen is None:
        seen = set()
    stack = [t]
    while stack:
        x = stack.pop()
        if is_const(x) or x in seen:
            continue
        seen.add(x)
        if x[0] == "app":
            acc[x[2]] = (x[1], tuple(sort_of(a) for a in x[3:]))
            stack.extend(x[3:])
        elif x[0] != "var":
            stack.extend(x[2:])
    return acc


def app_terms(t, acc=None, seen=None):
    """collect the distinct uninterpreted application terms occurring in t (list, innermost first is not guaranteed)"""
    if acc is None:
        acc = []
    if seen is None:
        seen = set()
    stack = [t]
    while stack:
        x = stack.pop()
        if is_const(x) or id(x) in seen:
            continue
        seen.add(id(x))
        if x[0] == "app":
            if x not in acc:
                acc.append(x)
            stack.extend(x[3:])
        elif x[0] != "var":
            stack.extend(x[2:])
    return acc


def evaluate(t, env, funs=None):
    """Concrete evaluation under env: name -> int/bool. Used for translator validation/replay."""
    if is_const(t):
        return t
    op = t[0]
    if op == "var":
        return env[t[2]]
    if op == "app":
        args = [evaluate(a, env, funs) for a in t[3:]]
        return funs[t[2]](*args)
    if op == "ite":
        return evaluate(t[3], env, funs) if evaluate(t[2], env, funs) else evaluate(t[4], env, funs)
    if op == "and":
        return all(evaluate(a, env, funs) for a in t[2:])
    if op == "or":
        return any(evaluate(a, env, funs) for a in t[2:])
    a = [evaluate(x, env, funs) for x in t[2:]]
    if op == "+":
        return a[0] + a[1]
    if op == "-":
        return a[0] - a[1]
    if op == "*":
        return a[0] * a[1]
    if op == "div":
        if a[1] == 0:
            return 0
        return a[0] // a[1] if a[1] > 0 else -(a[0] // -a[1])
    if op == "mod":
        if a[1] == 0:
            return a[0]
        return a[0] % abs(a[1])
    if op == "<":
        return a[0] < a[1]
    if op == "<=":
        return a[0] <= a[1]
    if op == "=":
        return a[0] == a[1]
    if op == "not":
        return not a[0]
    raise ValueError(op)
