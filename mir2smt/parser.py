"""Parser for rustc's textual MIR (`-Zunpretty=mir`).

Produces Function objects: params, return type, local types, debug-name map and basic blocks
whose statements/terminators are kept as raw strings split at top level; operands/places/rvalues
are parsed lazily by the executor (parse_* helpers below).
"""
from __future__ import annotations
import re
from dataclasses import dataclass, field


@dataclass
class Block:
    name: str
    stmts: list
    term: str
    cleanup: bool = False


@dataclass
class Function:
    name: str          # full header path as printed
    short: str         # last path segment (method name), closures keep `{closure#N}` suffix chain
    params: list       # [(local, type)]
    ret: str
    locals: dict       # local -> type
    debug: dict        # debug name -> place text
    blocks: dict       # bb name -> Block
    impl_span: str | None   # "file:line:col: line:col" of the innermost impl, if any
    kind: str = "fn"   # fn | const | static | promoted
    crate: str = ""
    line: int = 0
    impl_header: str | None = None


HEADER_RE = re.compile(r"^(fn|const|static(?: mut)?) (.*)$")
ANON_CONST_RE = re.compile(r"^[A-Za-z_][\w:<>', ]*::\{constant#\d+\}: [\w:]+ = \{$")


def split_top(s, sep=","):
    """split s at top-level occurrences of sep (ignoring (), [], {}, <>, strings)"""
    out = []
    depth = 0
    cur = []
    i = 0
    n = len(s)
    in_str = False
    while i < n:
        c = s[i]
        if in_str:
            cur.append(c)
            if c == "\\":
                i += 1
                if i < n:
                    cur.append(s[i])
            elif c == '"':
                in_str = False
            i += 1
            continue
        if c == '"':
            in_str = True
            cur.append(c)
        elif c in "([{":
            depth += 1
            cur.append(c)
        elif c in ")]}":
            depth -= 1
            cur.append(c)
        elif c == "<":
            # generic bracket only if it looks like one (preceded by ident/:: or start) -- treat all as brackets
            # except the comparison ops never appear in MIR text (they are Lt(..)); `->` handled below
            depth += 1
            cur.append(c)
        elif c == ">":
            if i > 0 and s[i - 1] in "-=":  # `->` or `=>`
                cur.append(c)
            else:
                depth -= 1
                cur.append(c)
        elif depth == 0 and s.startswith(sep, i):
            out.append("".join(cur).strip())
            cur = []
            i += len(sep)
            continue
        else:
            cur.append(c)
        i += 1
    last = "".join(cur).strip()
    if last or out:
        out.append(last)
    return out


def _find_matching(s, start, open_c="(", close_c=")"):
    depth = 0
    in_str = False
    i = start
    while i < len(s):
        c = s[i]
        if in_str:
            if c == "\\":
                i += 1
            elif c == '"':
                in_str = False
        elif c == '"':
            in_str = True
        elif c == open_c:
            depth += 1
        elif c == close_c:
            depth -= 1
            if depth == 0:
                return i
        i += 1
    return -1


def parse_header(line):
    """`fn path(args) -> ret {`  or `const path: T = {`"""
    m = HEADER_RE.match(line)
    kind, rest = m.group(1), m.group(2)
    rest = rest.rstrip()
    assert rest.endswith("{"), line
    rest = rest[:-1].rstrip()
    if kind == "fn":
        # find the parameter list: the last top-level (...) before ` -> ` at depth 0
        # scan for the '(' that starts params: it's the first '(' at angle/brace depth 0 that is
        # preceded by an identifier char or '}' (closure#0) and whose match is followed by ' -> ' or end
        # simpler: find rightmost ") -> " at top level, or trailing ")"
        idx = _top_level_arrow(rest)
        if idx >= 0:
            sig, ret = rest[:idx].rstrip(), rest[idx + 4:].strip()
        else:
            sig, ret = rest, "()"
        assert sig.endswith(")"), line
        # find matching '(' from the end
        depth = 0
        j = len(sig) - 1
        while j >= 0:
            if sig[j] == ")":
                depth += 1
            elif sig[j] == "(":
                depth -= 1
                if depth == 0:
                    break
            j -= 1
        name = sig[:j]
        ptxt = sig[j + 1:-1]
        params = []
        for p in split_top(ptxt):
            if not p:
                continue
            loc, ty = p.split(":", 1)
            params.append((loc.strip(), ty.strip()))
        return kind, name, params, ret
    else:
        # const NAME: TYPE = {
        assert rest.endswith("="), line
        rest = rest[:-1].rstrip()
        # split at the last top-level ": "
        parts = split_top(rest, ": ")
        name = ": ".join(parts[:-1]) if len(parts) > 1 else parts[0]
        ty = parts[-1] if len(parts) > 1 else ""
        return "const", name, [], ty


def _top_level_arrow(s):
    depth = 0
    i = 0
    last = -1
    while i < len(s):
        c = s[i]
        if c in "([{<":
            depth += 1
        elif c in ")]}":
            depth -= 1
        elif c == ">":
            if i > 0 and s[i - 1] == "-":
                if depth == 0 and s.startswith(" -> ", i - 2):
                    last = i - 2
            else:
                depth -= 1
        i += 1
    return last


IMPL_SPAN_RE = re.compile(r"<impl at ([^>]+?)>")


def short_name(name):
    # last path segment after the last '>::' or '::' at top level
    parts = split_top(name, "::")
    # join trailing closure segments
    segs = []
    for p in reversed(parts):
        segs.insert(0, p)
        if not p.startswith("{closure") and not p.startswith("promoted[") and not p.startswith("{constant"):
            break
    return "::".join(segs)


def parse_mir(text, crate=""):
    funcs = []
    lines = text.split("\n")
    i = 0
    n = len(lines)
    ctfe_next = False
    while i < n:
        line = lines[i]
        if line.startswith("// MIR FOR CTFE"):
            ctfe_next = True
            i += 1
            continue
        if ANON_CONST_RE.match(line):
            # explicit enum discriminants are printed without the `const` keyword: `Enum::Variant::{constant#0}: u8 = {`
            line = "const " + line
        if HEADER_RE.match(line) and line.rstrip().endswith("{"):
            start = i
            # body until a line that is exactly "}"
            j = i + 1
            while j < n and lines[j] != "}":
                j += 1
            body = lines[i + 1:j]
            if ctfe_next:
                ctfe_next = False
                i = j + 1
                continue
            try:
                kind, name, params, ret = parse_header(line)
            except Exception:
                i = j + 1
                continue
            f = _parse_body(kind, name, params, ret, body)
            f.crate = crate
            f.line = start + 1
            if "promoted[" in name:
                f.kind = "promoted"
            funcs.append(f)
            i = j + 1
            continue
        i += 1
    return funcs


LET_RE = re.compile(r"^\s*let (?:mut )?(_\d+): (.*);$")
DEBUG_RE = re.compile(r"^\s*debug (\S+) => (.*);$")
BB_RE = re.compile(r"^\s{4}(bb\d+)( \(cleanup\))?: \{$")


def _parse_body(kind, name, params, ret, body):
    locals_ = {}
    debug = {}
    blocks = {}
    for loc, ty in params:
        locals_[loc] = ty
    i = 0
    n = len(body)
    while i < n:
        line = body[i]
        m = BB_RE.match(line)
        if m:
            bbname = m.group(1)
            cleanup = bool(m.group(2))
            j = i + 1
            raw = []
            while j < n and body[j] != "    }":
                raw.append(body[j].strip())
                j += 1
            # statements may span lines? rustc prints each on one line. join defensively
            stmts = [s for s in raw if s and not s.startswith("//")]
            term = stmts[-1] if stmts else "unreachable;"
            blocks[bbname] = Block(bbname, [s.rstrip(";") for s in stmts[:-1]], term.rstrip(";"), cleanup)
            i = j + 1
            continue
        m = LET_RE.match(line)
        if m:
            locals_[m.group(1)] = m.group(2).strip()
            i += 1
            continue
        m = DEBUG_RE.match(line)
        if m:
            debug.setdefault(m.group(1), m.group(2).strip())
            i += 1
            continue
        i += 1
    if "_0" not in locals_:
        locals_["_0"] = ret
    spans = IMPL_SPAN_RE.findall(name)
    return Function(
        name=name,
        short=short_name(name),
        params=params,
        ret=ret,
        locals=locals_,
        debug=debug,
        blocks=blocks,
        impl_span=spans[-1] if spans else None,
        kind="fn" if kind == "fn" else "const",
    )
