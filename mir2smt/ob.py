"""Obligation framework for engine M."""
from __future__ import annotations
import os
import re
import time
from . import terms as T
from .exec import (Program, Ctx, explore, IntV, BoolV, AggV, EnumV, OpaqueV, RefV, UNIT, Path, mk_option,
                   mk_result, type_head)
from .dump import dump, file_hash
from . import smt


class Inconclusive(Exception):
    pass


def _b2i(t):
    if T.sort_of(t) == T.BOOL:
        return T.ite(t, 1, 0)
    return t


class Session:
    def __init__(self, crates, timeout_s=60):
        self.prog = Program()
        self.dump_log = []
        for c in crates:
            self.prog.load(dump(c, self.dump_log), c)
        self.timeout_s = timeout_s
        self.results = []       # dicts
        self.encoded = set()
        self.env_syms = set()
        self.current = None
        self.aux_queries = 0
        self.aux_time = 0.0
        self._natives = {}
        self.tier = "quick"
        self.native_driver = None

    def ctx(self, unwind=8):
        c = Ctx(self.prog)
        c.unwind = unwind
        return c

    def fn(self, pattern, nparams=None, trait=None):
        return self.prog.find1(pattern, nparams, trait)

    def run(self, ctx, pattern, args, nparams=None, trait=None, allow=("return", "panic"), assume=()):
        f = pattern if not isinstance(pattern, str) else self.fn(pattern, nparams if nparams is not None else len(args), trait)
        paths = explore(ctx, f, args)
        # `unreachable` terminators / exceeded unwinding: the path condition must be unsatisfiable
        keep = []
        for p in paths:
            if p.outcome in ("unreachable", "unwind") and p.outcome not in allow:
                qr = smt.check("infeasible", ctx.decls, ctx.uf_decls, list(ctx.side) + list(assume) + p.pc, self.timeout_s)
                self.aux_queries += 1
                self.aux_time += qr.time_s
                if qr.verdict != "unsat":
                    raise Inconclusive(f"{f.short}: {p.outcome} path at {p.value} is not provably infeasible ({qr.per_solver})")
            else:
                keep.append(p)
        paths = keep
        bad = [p for p in paths if p.outcome not in allow]
        self.encoded |= ctx.encoded
        self.env_syms |= ctx.env_used
        if bad:
            raise Inconclusive(f"{f.short}: path ended with {bad[0].outcome}: {bad[0].value}")
        return paths

    # ------------------------------------------------------------ queries
    def _record(self, ob, name, kind, expect, qr, extra=None):
        ok = qr.verdict == expect
        r = {
            "obligation": ob, "query": name, "kind": kind, "expect": expect, "verdict": qr.verdict,
            "solvers": qr.per_solver, "time_s": round(qr.time_s, 3), "ok": ok, "model": qr.model if qr.verdict == "sat" else None,
            "smt": qr.text,
        }
        if extra:
            r.update(extra)
        if not ok and os.environ.get("VERIF_DEBUG"):
            print("DEBUG-FAIL", ob, name, qr.verdict, (extra or {}).get("note", ""))
        self.results.append(r)
        return r

    def native_oracle(self, ctx, key, args, expect, pre=None):
        """register a native *reference check* (the driver runs the real function on a scenario built from `args` and compares it
        with an independent definition, printing 1 per agreeing aspect): during replay a result different from `expect`
        reproduces the violation natively"""
        self._natives.setdefault(id(ctx), []).append({"key": key, "args": list(args), "outs": list(expect), "panic": None, "pre": pre, "oracle": True})

    def native(self, ctx, key, args, outs, panic=None, pre=None):
        """register the native counterpart of an encoded call: vnative `key` applied to `args` (Int terms) must give
        `outs` (Int/Bool terms; Bool compared as 0/1) or panic exactly when `panic` holds. Used for replay of
        counterexamples and for translator validation."""
        self._natives.setdefault(id(ctx), []).append({"key": key, "args": list(args), "outs": [_b2i(o) for o in outs], "panic": panic, "pre": pre})

    def prove(self, ctx, ob, name, assumptions, goal, timeout_s=None, extra=None, small=None):
        """assert side /\ assumptions /\ not goal ; expect unsat.
        `small`: extra assumptions confining the query to a small sub-domain; used only when the unbounded query is not decided
        (a `sat` inside the sub-domain is still a counterexample of the unbounded claim; `unsat` there leaves the item inconclusive)"""
        asserts = list(ctx.side) + list(assumptions) + [T.not_(goal)]
        qr = smt.check(name, ctx.decls, ctx.uf_decls, asserts, timeout_s or self.timeout_s)
        if qr.verdict == "inconclusive" and small:
            q2 = smt.check(name + "!small", ctx.decls, ctx.uf_decls, asserts + list(small), min(timeout_s or self.timeout_s, 120))
            self.aux_queries += 1
            self.aux_time += q2.time_s
            if q2.verdict == "sat":
                qr = q2
        ex = {"natives": self._natives.setdefault(id(ctx), []), "goal_term": goal, "assumptions_terms": list(assumptions),
              "side_terms": list(ctx.side)}
        if extra:
            ex.update(extra)
        return self._record(ob, name, "prove", "unsat", qr, ex)

    def validate(self, ctx, inputs):
        """translator validation: for each concrete assignment of the context's symbols, the encoding evaluated
        concretely must agree with the native function for every registered native call. Returns (cases, mismatches)."""
        from vlib.native import ev
        cases, mism = 0, []
        regs = self._natives.get(id(ctx), [])
        batch = []
        for model in inputs:
            for reg in regs:
                if reg.get("pre") is not None and not ev(reg["pre"], model):
                    continue
                args = [int(ev(a, model)) for a in reg["args"]]
                pan = bool(ev(reg["panic"], model)) if reg.get("panic") is not None else False
                enc = "panic" if pan else [int(ev(o, model)) for o in reg["outs"]]
                batch.append((reg["key"], args, enc))
        if batch:
            got = self.native_driver.batch([(k, a) for k, a, _ in batch])
            for (k, a, enc), g in zip(batch, got):
                cases += 1
                if g != enc:
                    mism.append({"key": k, "args": a, "native": g, "encoding": enc})
        return cases, mism

    def witness(self, ctx, ob, name, assumptions, cond=True, timeout_s=None):
        """vacuity/reachability witness: side /\ assumptions /\ cond must be satisfiable"""
        asserts = list(ctx.side) + list(assumptions) + [cond]
        qr = smt.check(name, ctx.decls, ctx.uf_decls, asserts, timeout_s or self.timeout_s)
        return self._record(ob, name, "witness", "sat", qr)


# ---------------------------------------------------------------- helpers on path sets
def returns(paths):
    return [p for p in paths if p.outcome == "return"]


def panics(paths):
    return [p for p in paths if p.outcome == "panic"]


def cond_of(paths):
    return T.or_(*[p.cond() for p in paths])


def merged(paths, proj):
    """ite-merge proj(value) over the returning paths (last path is the default)"""
    rs = returns(paths)
    if not rs:
        raise Inconclusive("no returning path")
    out = proj(rs[-1].value)
    for p in reversed(rs[:-1]):
        out = T.ite(p.cond(), proj(p.value), out)
    return out


def as_int(v):
    if isinstance(v, IntV):
        return v.t
    if isinstance(v, AggV) and len(v.fields) == 1:
        return as_int(v.fields[0])
    if isinstance(v, EnumV) and not v.payloads:
        return v.disc
    if isinstance(v, OpaqueV) and type_head(v.ty) in ("Capacity", "EpochNumberWithFraction", "Since"):
        return Ctx.LIVE.int(v.name + ".0", "u64").t
    raise Inconclusive(f"not an int: {v}")


def as_bool(v):
    if isinstance(v, BoolV):
        return v.t
    raise Inconclusive(f"not a bool: {v}")


def newtype(inner, ty):
    return AggV((inner,), ty)
