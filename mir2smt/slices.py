"""Byte-slice model for engine M: `&[u8]` = (buffer, offset, length) over an uninterpreted byte function, plus the few
std/molecule helpers the generated molecule readers use. Bounds checks that the real code performs (slice indexing,
`unpack_number`'s `&slice[..4]`) are panic paths here exactly as in Rust."""
from __future__ import annotations
import re
from . import terms as T
from .exec import (IntV, BoolV, AggV, EnumV, OpaqueV, RefV, UNIT, SliceV, ListV, Panic, Unsupported, UnwindExceeded,
                   mk_option, mk_result)

NOT = object()


def _d(ex, v):
    while isinstance(v, RefV):
        v = ex.project(v.frame, v.frame.locals[v.local], v.proj)
    return v


def unpack(ex, sl):
    if not ex.decide(T.le(4, sl.len)):
        raise Panic("unpack_number: slice shorter than 4 bytes")
    b = [ex.byte_at(sl, k).t for k in range(4)]
    return IntV(T.add(T.add(b[0], T.mul(b[1], 1 << 8)), T.add(T.mul(b[2], 1 << 16), T.mul(b[3], 1 << 24))), "u32")


def site_bound(ex):
    """bound on the number of offsets collected at this call site: tables: FIELD_COUNT + ctx.extra_fields (default 1);
    dynamic vectors: ctx.vec_items (default 2)"""
    fn = ex.cur_fn
    h = (fn.impl_header or "") if fn is not None else ""
    m = re.search(r"for (\w+Reader)<'r>", h)
    key = ("site_bound", m.group(1) if m else None)
    memo = ex.ctx.env_memo
    if key in memo:
        return memo[key]
    bound = None
    if m:
        rn = m.group(1)
        for name, f in ex.prog.consts.items():
            if name.endswith("::FIELD_COUNT") and re.search(r"impl<'r> " + rn + r"<'r>\s*$", (ex.prog._impl_header(f) or "").strip()):
                v = ex.eval_const(f)
                if isinstance(v, IntV) and isinstance(v.t, int):
                    bound = v.t + getattr(ex.ctx, "extra_fields", 1)
                break
    if bound is None:
        bound = getattr(ex.ctx, "vec_items", 2)
    memo[key] = bound
    return bound


def slice_builtin(ex, fr, c, args, dty):
    a0 = _d(ex, args[0]) if args else None
    if re.search(r"(^|::)unpack_number$", c) and isinstance(a0, SliceV):
        return unpack(ex, a0)
    m = re.match(r"^<\[u8\] as (?:std::ops::|core::ops::)?Index<(?:std::ops::|core::ops::)?(RangeFrom|RangeTo|Range|RangeFull)(?:<usize>)?>>::index$", c)
    if m and isinstance(a0, SliceV):
        kind = m.group(1)
        r = _d(ex, args[1])
        if kind == "RangeFull":
            return a0
        fs = [f.t for f in r.fields]
        if kind == "RangeFrom":
            st, en = fs[0], a0.len
        elif kind == "RangeTo":
            st, en = 0, fs[0]
        else:
            st, en = fs[0], fs[1]
        if not ex.decide(T.le(st, en)):
            raise Panic("slice index starts after its end")
        if not ex.decide(T.le(en, a0.len)):
            raise Panic("slice end index out of range")
        return SliceV(a0.buf, T.add(a0.off, st), T.sub(en, st))
    m = re.match(r"^core::slice::<impl \[u8\]>::(len|is_empty|chunks_exact|first|starts_with)$", c)
    if m and isinstance(a0, SliceV):
        op = m.group(1)
        if op == "len":
            return IntV(a0.len, "usize")
        if op == "is_empty":
            return BoolV(T.eq(a0.len, 0))
        if op == "chunks_exact":
            sz = args[1].t
            if not isinstance(sz, int):
                raise Unsupported("chunks_exact with symbolic size")
            return AggV((a0, IntV(sz, "usize")), "ChunksExact")
    m = re.match(r"^<ChunksExact<'_, u8> as (?:std::iter::|core::iter::)?Iterator>::map(::<.*)?$", c)
    if m:
        return AggV((a0, args[1]), "Map<ChunksExact>")
    if re.match(r"^<Map<ChunksExact<'_, u8>, .*> as (?:std::iter::|core::iter::)?Iterator>::collect(::<.*)?$", c):
        ch, clo = a0.fields
        sl, sz = ch.fields
        sz = sz.t
        kmax = site_bound(ex)
        for k in range(0, kmax + 1):
            if ex.decide(T.eq(T.ediv(sl.len, sz), k)):
                items = []
                for i in range(k):
                    items.append(ex.call_value(fr, clo, [SliceV(sl.buf, T.add(sl.off, sz * i), sz)], "usize"))
                return ListV(tuple(items), "Vec<usize>")
        raise UnwindExceeded("more chunks than slice_kmax")
    m = re.match(r"^core::slice::<impl \[(\w+)\]>::windows$", c)
    if m and isinstance(a0, ListV):
        return AggV((a0, args[1], IntV(0, "usize")), "Windows")
    m = re.match(r"^<Windows<'_, (\w+)> as (?:std::iter::|core::iter::)?Iterator>::any(::<.*)?$", c)
    if m and isinstance(_d(ex, args[0]), AggV):
        w = _d(ex, args[0])
        lst, n, pos = w.fields
        n = n.t
        res = False
        for i in range(pos.t, len(lst.items) - n + 1):
            r = ex.call_value(fr, args[1], [ex.ctx.ref_to(ListV(lst.items[i:i + n], lst.ty))], "bool")
            res = T.or_(res, r.t)
        return BoolV(res)
    m = re.match(r"^<Windows<'_, (\w+)> as (?:std::iter::|core::iter::)?IntoIterator>::into_iter$", c)
    if m:
        return args[0]
    m = re.match(r"^<Windows<'_, (\w+)> as (?:std::iter::|core::iter::)?Iterator>::next$", c)
    if m and isinstance(args[0], RefV):
        w = _d(ex, args[0])
        lst, n, pos = w.fields
        if pos.t + n.t <= len(lst.items):
            ex._write(args[0].frame, args[0].local, list(args[0].proj), AggV((lst, n, IntV(pos.t + 1, "usize")), w.ty))
            return mk_option(True, ex.ctx.ref_to(ListV(lst.items[pos.t:pos.t + n.t], lst.ty)), dty)
        return mk_option(False, None, dty)
    if re.match(r"^molecule::prelude::ByteReader::<'_>::verify$|ByteReader<'_> as .*Reader<'_>>::verify$", c) and isinstance(a0, SliceV):
        return mk_result(T.eq(a0.len, 1), UNIT, OpaqueV("verr", "VerificationError"), dty)
    if re.match(r"^molecule::prelude::ByteReader::<'_>::new_unchecked$|ByteReader<'_> as .*Reader<'_>>::new_unchecked$", c):
        return AggV((args[0],), "ByteReader")
    return NOT
