"""Built-in models of `core`/`std` helpers (and numext big integers) used by the encoded functions.

Each model is a few lines and mirrors the documented behaviour of the std function; they are part of
the trusted base of engine M and are exercised by the translator self-test (tests/selftest.py).
"""
from __future__ import annotations
import re
from . import terms as T
from .exec import (IntV, BoolV, AggV, EnumV, OpaqueV, FnV, RefV, StrV, UNIT, INT_TYPES, Panic, Unsupported, ListV,
                   mk_option, mk_result, mk_ordering, type_head, ty_range, int_type, split_top)

NOT_BUILTIN = object()

INTNAMES = "u8|u16|u32|u64|u128|usize|i8|i16|i32|i64|i128|isize"
BIGNAMES = "U256|U512|U128"


def deref(ex, v):
    while isinstance(v, RefV):
        v = ex.project(v.frame, v.frame.locals[v.local], v.proj)
    return v


def strip_generics_tail(c):
    # remove a trailing `::<...>` turbofish
    if c.endswith(">"):
        depth = 0
        i = len(c) - 1
        while i >= 0:
            if c[i] == ">" and i > 0 and c[i - 1] == "-":
                pass
            elif c[i] == ">":
                depth += 1
            elif c[i] == "<":
                depth -= 1
                if depth == 0:
                    break
            i -= 1
        if i >= 2 and c[i - 2:i] == "::":
            return c[:i - 2]
    return c


def try_builtin(ex, fr, callee, args, dty):
    c = strip_generics_tail(callee)
    # ---- panics
    if re.search(r"(^|::)(panic|panic_fmt|panic_const_\w+|panic_nounwind|begin_panic|unwrap_failed|expect_failed|"
                 r"panic_display|panic_str|panic_explicit|assert_failed|assert_failed_inner|unreachable_display|"
                 r"panic_bounds_check|slice_index_order_fail|slice_end_index_len_fail|slice_start_index_len_fail)$", c) \
            or "panicking::" in c:
        raise Panic(c)
    # ---- integer inherent methods
    m = re.search(r"(?:^|::)(?:core|std)::num::<impl (" + INTNAMES + r")>::(\w+)$", c)
    if m:
        return int_method(ex, m.group(1), m.group(2), args, dty)
    m = re.match(r"^(" + INTNAMES + r")::(\w+)$", c)
    if m:
        return int_method(ex, m.group(1), m.group(2), args, dty)
    # ---- trait methods on ints / big ints
    m = re.match(r"^<&?(?:'\w+ )?(" + INTNAMES + "|" + BIGNAMES + r"|bool) as (?:std|core)?:?:?(?:cmp::|ops::|convert::|clone::|default::)?(\w+)(?:<(.*)>)?>::(\w+)$", c)
    if m:
        r = int_trait(ex, m.group(1), m.group(2), m.group(3), m.group(4), args, dty)
        if r is not NOT_BUILTIN:
            return r
    m = re.match(r"^<(.+) as (?:std::|core::)?(?:convert::)?(Into|From|TryFrom|TryInto)<(.+)>>::(\w+)$", c)
    if m:
        r = conv(ex, m.group(1), m.group(2), m.group(3), m.group(4), args, dty)
        if r is not NOT_BUILTIN:
            return r
    m = re.match(r"^(?:std|core)::cmp::(min|max)$", c)
    if m and len(args) == 2 and isinstance(args[0], IntV):
        a, b = args
        return IntV(T.imin(a.t, b.t) if m.group(1) == "min" else T.imax(a.t, b.t), a.ty)
    # ---- Clone / Copy / Default / Deref / Borrow / AsRef for anything
    m = re.match(r"^<(.+) as (?:std::|core::)?(?:clone::)?Clone>::clone$", c)
    if m:
        return deref(ex, args[0]) if isinstance(args[0], RefV) else args[0]
    m = re.match(r"^<(.+) as (?:std::|core::)?(?:default::)?Default>::default$", c)
    if m:
        it = int_type(m.group(1))
        if it is not None:
            return IntV(0, type_head(m.group(1)))
        if m.group(1) == "bool":
            return BoolV(False)
    m = re.match(r"^<(.+) as (?:std::|core::)?(?:ops::)?(Deref|DerefMut)>::deref(_mut)?$", c)
    if m and isinstance(args[0], RefV):
        inner = deref(ex, args[0])
        if isinstance(inner, RefV):
            return inner
        if isinstance(inner, OpaqueV) and re.match(r"^(?:std::\w+::|alloc::\w+::)?(Arc|Box|Rc)<", inner.ty.strip()):
            it = inner.ty[inner.ty.index("<") + 1:inner.ty.rindex(">")]
            return ex.ctx.ref_to(OpaqueV(inner.name + ".deref", it), it)
    m = re.match(r"^<(.+) as (?:std::|core::)?(?:cmp::)?PartialEq(?:<.*>)?>::(eq|ne)$", c)
    if m:
        a, b = deref(ex, args[0]), deref(ex, args[1])
        e = struct_eq(a, b)
        if e is not None:
            return BoolV(e if m.group(2) == "eq" else T.not_(e))
    # ---- Option / Result
    m = re.match(r"^(?:std::|core::)?(?:option::)?Option::<(.*)>::(\w+)$", c) or re.match(r"^(?:std::|core::)?(?:option::)?Option::(\w+)$", c)
    if m:
        name = m.group(m.lastindex)
        r = option_method(ex, fr, name, args, dty)
        if r is not NOT_BUILTIN:
            return r
    m = re.match(r"^(?:std::|core::)?(?:result::)?Result::<(.*)>::(\w+)$", c) or re.match(r"^(?:std::|core::)?(?:result::)?Result::(\w+)$", c)
    if m:
        name = m.group(m.lastindex)
        r = result_method(ex, fr, name, args, dty)
        if r is not NOT_BUILTIN:
            return r
    m = re.match(r"^<(?:std::|core::)?(?:option::|result::)?(Option|Result)<.*> as (?:std::|core::)?(?:ops::)?(Try|FromResidual(?:<.*>)?)>::(\w+)$", c)
    if m:
        return try_trait(ex, m.group(1), m.group(3), args, dty)
    # ---- closures / fn items
    m = re.match(r"^<(.+) as (?:std::|core::)?(?:ops::)?(FnOnce|FnMut|Fn)<\((.*)\)>>::(call_once|call_mut|call)$", c)
    if m:
        fv = args[0]
        tup = args[1]
        targs = list(tup.fields) if isinstance(tup, AggV) else []
        return ex.call_value(fr, fv, targs, dty)
    # ---- async plumbing: awaiting is `into_future` + `Pin::new_unchecked` + `poll` (the poll itself is an environment symbol of the obligation)
    if re.search(r" as (?:std::future::|core::future::)?IntoFuture>::into_future$", c):
        return args[0]
    if re.match(r"^(?:std::pin::|core::pin::)?Pin::<.*>::(new_unchecked|new)$", c):
        return AggV((args[0],), dty or "Pin")
    if re.match(r"^(?:std::pin::|core::pin::)?Pin::<.*>::(get_mut|get_unchecked_mut|into_inner|get_ref)$", c):
        v = args[0]
        return v.fields[0] if isinstance(v, AggV) and len(v.fields) == 1 else v
    # ---- `vec![a, b]` / `Box::new`: exchange_malloc gives a fresh heap cell, the array is written through the raw pointer, `into_vec` reads it back
    if re.match(r"^alloc::alloc::exchange_malloc$", c):
        return ex.ctx.ref_to(AggV((), "uninit"))
    if re.match(r"^(?:std|alloc)::slice::<impl \[.*\]>::into_vec(::<.*>)?$", c):
        b = args[0]
        for _ in range(6):
            if isinstance(b, AggV) and b.fields:
                b = b.fields[0]
        if isinstance(b, RefV):
            v = deref(ex, b)
            if isinstance(v, AggV):
                return ListV(tuple(v.fields), dty or "Vec<?>")
            if isinstance(v, ListV):
                return v
    # ---- mem
    if re.match(r"^(?:std|core)::mem::replace$", c):
        old = deref(ex, args[0])
        r = args[0]
        ex._write(r.frame, r.local, list(r.proj), args[1])
        return old
    if re.match(r"^(?:std|core)::mem::swap$", c):
        a, b = args
        va, vb = deref(ex, a), deref(ex, b)
        ex._write(a.frame, a.local, list(a.proj), vb)
        ex._write(b.frame, b.local, list(b.proj), va)
        return UNIT
    if re.match(r"^(?:std|core)::mem::take$", c):
        raise Unsupported("mem::take")
    if re.match(r"^(?:std|core)::(?:mem::drop|mem::forget|hint::black_box)$", c):
        return UNIT if "black_box" not in c else args[0]
    if re.match(r"^(?:std|core)::intrinsics::(un)?likely$", c) or re.match(r"^(?:std|core)::hint::(un)?likely$", c):
        return args[0]
    if re.match(r"^(?:std|core)::intrinsics::cold_path$", c) or re.match(r"^(?:std|core)::hint::cold_path$", c):
        return UNIT
    # ---- byte slices over a symbolic buffer (molecule readers)
    from . import slices as _sl
    r = _sl.slice_builtin(ex, fr, c, args, dty)
    if r is not _sl.NOT:
        return r
    # ---- Vec / slices of concrete length, integer ranges
    r = list_builtin(ex, fr, c, args, dty)
    if r is not NOT_BUILTIN:
        return r
    # ---- numext big integers (modelled as mathematical integers with range)
    r = big_method(ex, c, args, dty)
    if r is not NOT_BUILTIN:
        return r
    return NOT_BUILTIN


def struct_eq(a, b):
    if isinstance(a, IntV) and isinstance(b, IntV):
        return T.eq(a.t, b.t)
    if isinstance(a, BoolV) and isinstance(b, BoolV):
        return T.eq(a.t, b.t)
    if isinstance(a, AggV) and isinstance(b, AggV) and len(a.fields) == len(b.fields):
        es = []
        for x, y in zip(a.fields, b.fields):
            e = struct_eq(x, y)
            if e is None:
                return None
            es.append(e)
        return T.and_(*es)
    if isinstance(a, EnumV) and isinstance(b, EnumV) and not a.payloads and not b.payloads:
        return T.eq(a.disc, b.disc)
    return None


# ---------------------------------------------------------------- ints
def int_method(ex, ty, name, args, dty):
    a = args[0] if args else None
    if isinstance(a, RefV):
        a = deref(ex, a)
    if args and not isinstance(a, IntV):
        return NOT_BUILTIN       # receiver is not an integer value (opaque): leave the call to the generic resolution
    x = a.t if isinstance(a, IntV) else None
    y = args[1].t if len(args) > 1 and isinstance(args[1], IntV) else None
    if len(args) > 1 and y is None and isinstance(args[1], OpaqueV):
        return NOT_BUILTIN
    lo, hi = ty_range(ty)
    bits, signed = INT_TYPES[ty]

    def inr(t):
        return T.and_(T.le(lo, t), T.le(t, hi))

    raw = {"add": T.add, "sub": T.sub, "mul": T.mul}
    m = re.match(r"(checked|saturating|wrapping|overflowing|unchecked|strict)_(add|sub|mul)$", name)
    if m:
        kind, op = m.groups()
        r = raw[op](x, y)
        if kind == "checked":
            return mk_option(inr(r), IntV(r, ty), dty)
        if kind == "saturating":
            return IntV(T.ite(T.lt(r, lo), lo, T.ite(T.gt(r, hi), hi, r)), ty)
        if kind == "wrapping":
            return IntV(ex.wrap(r, ty), ty)
        if kind == "overflowing":
            return AggV((IntV(T.ite(inr(r), r, ex.wrap(r, ty)), ty), BoolV(T.not_(inr(r)))), dty)
        if kind == "unchecked":
            return IntV(r, ty)
        if kind == "strict":
            if not ex.decide(inr(r)):
                raise Panic("strict overflow")
            return IntV(r, ty)
    if name in ("checked_div", "checked_rem", "checked_div_euclid", "checked_rem_euclid") and not signed:
        ok = T.ne(y, 0)
        r = T.ediv(x, y) if "div" in name else T.emod(x, y)
        return mk_option(ok, IntV(r, ty), dty)
    if name in ("div_ceil",) and not signed:
        if not ex.decide(T.ne(y, 0)):
            raise Panic("attempt to divide by zero")
        q = T.ediv(x, y)
        return IntV(T.ite(T.eq(T.emod(x, y), 0), q, T.add(q, 1)), ty)
    if name in ("div_euclid", "rem_euclid") and not signed:
        if not ex.decide(T.ne(y, 0)):
            raise Panic("attempt to divide by zero")
        return IntV(T.ediv(x, y) if name == "div_euclid" else T.emod(x, y), ty)
    if name == "is_multiple_of" and not signed:
        return BoolV(T.ite(T.eq(y, 0), T.eq(x, 0), T.eq(T.emod(x, y), 0)))
    if name == "abs_diff":
        return IntV(T.ite(T.le(x, y), T.sub(y, x), T.sub(x, y)), ty if not signed else "u" + ty[1:])
    if name == "pow" and isinstance(y, int):
        r = 1
        for _ in range(y):
            r = T.mul(r, x)
        if not ex.decide(inr(r)):
            raise Panic("attempt to multiply with overflow")
        return IntV(r, ty)
    if name in ("min", "max"):
        return IntV(T.imin(x, y) if name == "min" else T.imax(x, y), ty)
    if name in ("from_le_bytes", "from_be_bytes", "to_le_bytes", "to_be_bytes", "from_str_radix"):
        return NOT_BUILTIN
    if name in ("leading_zeros", "trailing_zeros", "count_ones", "count_zeros") and isinstance(x, int):
        xx = x & ((1 << bits) - 1)
        if name == "leading_zeros":
            return IntV(bits - xx.bit_length(), "u32")
        if name == "trailing_zeros":
            return IntV(bits if xx == 0 else (xx & -xx).bit_length() - 1, "u32")
        if name == "count_ones":
            return IntV(bin(xx).count("1"), "u32")
        return IntV(bits - bin(xx).count("1"), "u32")
    if name == "leading_zeros" and not signed:
        # ite chain: lz = bits - bitlen(x)
        res = bits
        for k in range(bits):
            res = T.ite(T.ge(x, 1 << k), bits - 1 - k, res)
        return IntV(res, "u32")
    if name == "trailing_zeros" and not signed:
        res = bits
        for k in range(bits - 1, -1, -1):
            res = T.ite(T.eq(T.emod(x, 1 << (k + 1)), 1 << k) if k + 1 <= bits else False, k, res)
        # the chain above picks the smallest k whose low (k+1) bits equal 2^k; evaluate lowest k last
        res2 = bits
        for k in range(bits - 1, -1, -1):
            res2 = T.ite(T.eq(T.emod(x, 1 << (k + 1)), 1 << k), k, res2)
        return IntV(res2, "u32")
    if name in ("checked_shl", "checked_shr", "wrapping_shl", "wrapping_shr", "overflowing_shl", "overflowing_shr"):
        sh = ex.binop("Shl" if name.endswith("shl") else "Shr", a, IntV(y, "u32"), ty)
        if name.startswith("checked"):
            return mk_option(T.lt(y, bits), sh, dty)
        if name.startswith("wrapping"):
            return sh
        return AggV((sh, BoolV(T.ge(y, bits))), dty)
    if name == "is_power_of_two" and isinstance(x, int):
        return BoolV(x > 0 and x & (x - 1) == 0)
    if name == "swap_bytes" or name == "to_be" or name == "to_le" or name == "from_be" or name == "from_le":
        return NOT_BUILTIN
    return NOT_BUILTIN


def int_trait(ex, ty, trait, targ, method, args, dty):
    a = deref(ex, args[0]) if args else None
    b = deref(ex, args[1]) if len(args) > 1 else None
    if trait == "Ord" and method == "cmp":
        return mk_ordering(a.t, b.t) if ty != "bool" else NOT_BUILTIN
    if trait == "Ord" and method in ("min", "max"):
        return IntV(T.imin(a.t, b.t) if method == "min" else T.imax(a.t, b.t), a.ty)
    if trait == "PartialOrd":
        if method == "partial_cmp":
            return mk_option(True, mk_ordering(a.t, b.t), dty)
        f = {"lt": T.lt, "le": T.le, "gt": T.gt, "ge": T.ge}.get(method)
        if f:
            return BoolV(f(a.t, b.t))
    if trait == "PartialEq":
        if method == "eq":
            return BoolV(T.eq(a.t, b.t))
        if method == "ne":
            return BoolV(T.ne(a.t, b.t))
    if trait in ("Add", "Sub", "Mul") and method in ("add", "sub", "mul") and isinstance(a, IntV) and isinstance(b, IntV) and ty in INT_TYPES and ty not in ("U256", "U512", "U128"):
        # operator impls on (references to) machine integers: #[rustc_inherit_overflow_checks] => panic on overflow
        r = {"add": T.add, "sub": T.sub, "mul": T.mul}[method](a.t, b.t)
        lo, hi = ty_range(ty)
        if not ex.decide(T.and_(T.le(lo, r), T.le(r, hi))):
            raise Panic(f"attempt to {method} with overflow")
        return IntV(r, ty)
    if trait == "Clone" and method == "clone":
        return a
    if trait == "Default":
        return IntV(0, ty) if ty != "bool" else BoolV(False)
    if trait in ("From", "Into") and method in ("from", "into") and isinstance(a, (IntV, BoolV)):
        # widening conversions only exist as From impls
        tgt = ty if trait == "From" else (type_head(targ) if targ else None)
        if tgt is None or tgt not in INT_TYPES:
            return NOT_BUILTIN
        if isinstance(a, BoolV):
            return IntV(T.ite(a.t, 1, 0), tgt)
        return IntV(a.t, tgt)
    if ty in ("U256", "U512", "U128"):
        return big_trait(ex, ty, trait, targ, method, a, b, dty)
    return NOT_BUILTIN


def conv(ex, selfty, trait, targ, method, args, dty):
    a = deref(ex, args[0]) if isinstance(args[0], RefV) and not selfty.startswith("&") else args[0]
    a = deref(ex, a)
    if not isinstance(a, (IntV, BoolV)):
        return NOT_BUILTIN
    if trait == "Into" and method == "into":
        tgt = type_head(targ)
    elif trait == "From" and method == "from":
        tgt = type_head(selfty)
    elif trait == "TryFrom" and method == "try_from":
        tgt = type_head(selfty)
    elif trait == "TryInto" and method == "try_into":
        tgt = type_head(targ)
    else:
        return NOT_BUILTIN
    if tgt not in INT_TYPES:
        return NOT_BUILTIN
    if isinstance(a, BoolV):
        return IntV(T.ite(a.t, 1, 0), tgt)
    if trait in ("TryFrom", "TryInto"):
        lo, hi = ty_range(tgt)
        ok = T.and_(T.le(lo, a.t), T.le(a.t, hi))
        return mk_result(ok, IntV(a.t, tgt), OpaqueV("TryFromIntError", "TryFromIntError"), dty)
    slo, shi = ty_range(a.ty)
    tlo, thi = ty_range(tgt)
    if not (tlo <= slo and shi <= thi):
        return NOT_BUILTIN
    return IntV(a.t, tgt)


# ---------------------------------------------------------------- Option / Result
def _some(ex, o):
    """decide whether an Option value is Some along this path; returns (is_some, payload)"""
    o = deref(ex, o)
    if isinstance(o, OpaqueV):
        d = ex.discriminant(o, "isize")
        inner_ty = o.ty[o.ty.index("<") + 1:o.ty.rindex(">")] if "<" in o.ty else ""
        if ex.decide(T.eq(d.t, 1)):
            return True, ex.ctx.fresh_of_type(o.name + ".Some.0", inner_ty)
        return False, None
    if not isinstance(o, EnumV):
        raise Unsupported(f"Option value {o}")
    if ex.decide(T.eq(o.disc, 1)):
        p = o.payload(1)
        return True, (p[0] if p else None)
    return False, None


def _ok(ex, r):
    r = deref(ex, r)
    if not isinstance(r, EnumV):
        raise Unsupported(f"Result value {r}")
    if ex.decide(T.eq(r.disc, 0)):
        p = r.payload(0)
        return True, (p[0] if p else None)
    p = r.payload(1)
    return False, (p[0] if p else None)


def option_method(ex, fr, name, args, dty):
    if name in ("map", "and_then", "ok_or", "ok_or_else", "unwrap", "expect", "unwrap_or", "unwrap_or_else",
                "unwrap_or_default", "is_some", "is_none", "map_or", "map_or_else", "filter", "or", "or_else",
                "unwrap_unchecked", "as_ref", "as_mut", "cloned", "copied", "take", "is_some_and", "is_none_or", "ok", "xor", "zip"):
        pass
    else:
        return NOT_BUILTIN
    o = args[0]
    if name in ("as_ref", "as_mut"):
        inner = deref(ex, o)
        if isinstance(inner, EnumV):
            # Option<&T>: payload becomes a reference to the payload; we keep values (immutable use)
            if name == "as_ref":
                return inner
        raise Unsupported("Option::as_mut")
    if name in ("cloned", "copied"):
        some, p = _some(ex, o)
        return mk_option(True, deref(ex, p), dty) if some else mk_option(False, None, dty)
    if name == "take":
        cur = deref(ex, o)
        ex._write(o.frame, o.local, list(o.proj), mk_option(False, None, getattr(cur, "ty", "Option")))
        return cur
    some, p = _some(ex, o)
    if name == "is_some":
        return BoolV(some)
    if name == "is_none":
        return BoolV(not some)
    if name == "map":
        if not some:
            return mk_option(False, None, dty)
        return mk_option(True, ex.call_value(fr, args[1], [p], ""), dty)
    if name == "and_then":
        if not some:
            return mk_option(False, None, dty)
        return ex.call_value(fr, args[1], [p], dty)
    if name == "filter":
        if not some:
            return mk_option(False, None, dty)
        keep = ex.call_value(fr, args[1], [ex.ctx.ref_to(p)], "bool")
        return mk_option(True, p, dty) if ex.decide(keep) else mk_option(False, None, dty)
    if name == "is_some_and":
        if not some:
            return BoolV(False)
        return ex.call_value(fr, args[1], [p], "bool")
    if name == "ok_or":
        return mk_result(True, p, None, dty) if some else mk_result(False, None, args[1], dty)
    if name == "ok_or_else":
        return mk_result(True, p, None, dty) if some else mk_result(False, None, ex.call_value(fr, args[1], [], ""), dty)
    if name in ("unwrap", "expect"):
        if not some:
            raise Panic("Option::" + name + " on None")
        return p
    if name == "unwrap_unchecked":
        return p
    if name == "unwrap_or":
        return p if some else args[1]
    if name == "unwrap_or_else":
        return p if some else ex.call_value(fr, args[1], [], dty)
    if name == "unwrap_or_default":
        if some:
            return p
        it = int_type(dty)
        if it is not None:
            return IntV(0, type_head(dty) if "::" in dty else dty)
        if dty.strip() == "bool":
            return BoolV(False)
        raise Unsupported("unwrap_or_default of " + dty)
    if name == "map_or":
        return ex.call_value(fr, args[2], [p], dty) if some else args[1]
    if name == "map_or_else":
        return ex.call_value(fr, args[2], [p], dty) if some else ex.call_value(fr, args[1], [], dty)
    if name == "or":
        return mk_option(True, p, dty) if some else args[1]
    if name == "or_else":
        return mk_option(True, p, dty) if some else ex.call_value(fr, args[1], [], dty)
    return NOT_BUILTIN


def result_method(ex, fr, name, args, dty):
    if name not in ("map", "map_err", "and_then", "unwrap", "expect", "is_ok", "is_err", "ok", "err", "unwrap_or",
                    "unwrap_or_else", "unwrap_or_default", "or_else", "expect_err", "unwrap_err", "or", "and"):
        return NOT_BUILTIN
    ok, p = _ok(ex, args[0])
    if name == "or":
        return mk_result(True, p, None, dty) if ok else args[1]
    if name == "and":
        return args[1] if ok else mk_result(False, None, p, dty)
    if name == "is_ok":
        return BoolV(ok)
    if name == "is_err":
        return BoolV(not ok)
    if name == "map":
        return mk_result(True, ex.call_value(fr, args[1], [p], ""), None, dty) if ok else mk_result(False, None, p, dty)
    if name == "map_err":
        return mk_result(True, p, None, dty) if ok else mk_result(False, None, ex.call_value(fr, args[1], [p], ""), dty)
    if name == "and_then":
        return ex.call_value(fr, args[1], [p], dty) if ok else mk_result(False, None, p, dty)
    if name == "or_else":
        return mk_result(True, p, None, dty) if ok else ex.call_value(fr, args[1], [p], dty)
    if name in ("unwrap", "expect"):
        if not ok:
            raise Panic("Result::" + name + " on Err")
        return p
    if name in ("unwrap_err", "expect_err"):
        if ok:
            raise Panic("Result::" + name + " on Ok")
        return p
    if name == "ok":
        return mk_option(True, p, dty) if ok else mk_option(False, None, dty)
    if name == "err":
        return mk_option(False, None, dty) if ok else mk_option(True, p, dty)
    if name == "unwrap_or":
        return p if ok else args[1]
    if name == "unwrap_or_else":
        return p if ok else ex.call_value(fr, args[1], [p], dty)
    if name == "unwrap_or_default":
        if ok:
            return p
        it = int_type(dty)
        if it is not None:
            return IntV(0, type_head(dty) if "::" in dty else dty)
        if dty.strip() == "bool":
            return BoolV(False)
        raise Unsupported("unwrap_or_default of " + dty)
    return NOT_BUILTIN


def try_trait(ex, which, method, args, dty):
    # ControlFlow: Continue = 0, Break = 1
    if method == "branch":
        if which == "Option":
            some, p = _some(ex, args[0])
            if some:
                return EnumV(0, ((0, (p,)),), dty)
            return EnumV(1, ((1, (mk_option(False, None, "Option"),)),), dty)
        ok, p = _ok(ex, args[0])
        if ok:
            return EnumV(0, ((0, (p,)),), dty)
        return EnumV(1, ((1, (mk_result(False, None, p, "Result"),)),), dty)
    if method == "from_residual":
        r = args[0]
        if which == "Option":
            return mk_option(False, None, dty)
        p = r.payload(1) if isinstance(r, EnumV) else None
        e = p[0] if p else None
        return mk_result(False, None, e, dty)
    if method == "from_output":
        return mk_option(True, args[0], dty) if which == "Option" else mk_result(True, args[0], None, dty)
    return NOT_BUILTIN


# ---------------------------------------------------------------- numext big integers
def big_norm(v):
    """numext values written as limb arrays (`U512([l0, .., l7])`, little-endian u64 limbs) -> one integer"""
    from .exec import ListV
    if isinstance(v, AggV) and len(v.fields) == 1 and type_head(v.ty) in ("U256", "U512", "U128"):
        limbs = v.fields[0]
        items = limbs.items if isinstance(limbs, ListV) else (limbs.fields if isinstance(limbs, AggV) else None)
        if items is not None and all(isinstance(x, IntV) for x in items):
            t = 0
            for i, x in enumerate(items):
                t = T.add(t, T.mul(x.t, 1 << (64 * i)))
            return IntV(t, type_head(v.ty))
    return v


def big_trait(ex, ty, trait, targ, method, a, b, dty):
    lo, hi = ty_range(ty)
    a, b = big_norm(a), big_norm(b)
    if trait == "UintConvert" and method == "convert_into" and isinstance(a, IntV) and targ in ("U256", "U512", "U128"):
        tlo, thi = ty_range(targ)
        fits = T.le(a.t, thi)
        return AggV((IntV(T.ite(fits, a.t, T.emod(a.t, thi + 1)), targ), BoolV(T.not_(fits))), dty)
    if trait in ("Add", "Sub", "Mul") and isinstance(a, IntV) and isinstance(b, IntV):
        r = {"Add": T.add, "Sub": T.sub, "Mul": T.mul}[trait](a.t, b.t)
        # numext: `+`,`-`,`*` panic on overflow (checked_* + expect) -- see numext-fixed-uint ops
        if not ex.decide(T.and_(T.le(lo, r), T.le(r, hi))):
            raise Panic(f"{ty} {trait} overflow")
        return IntV(r, ty)
    if trait in ("Div", "Rem") and isinstance(a, IntV) and isinstance(b, IntV):
        if not ex.decide(T.ne(b.t, 0)):
            raise Panic(f"{ty} division by zero")
        return IntV(T.ediv(a.t, b.t) if trait == "Div" else T.emod(a.t, b.t), ty)
    if trait in ("Shl", "Shr") and isinstance(a, IntV) and isinstance(b, IntV) and isinstance(b.t, int):
        if trait == "Shl":
            return IntV(T.emod(T.mul(a.t, 1 << b.t), hi + 1), ty)
        return IntV(T.ediv(a.t, 1 << b.t), ty)
    if trait in ("Shl", "Shr") and isinstance(a, IntV) and isinstance(b, IntV):
        # symbolic amount: numext shifts by >= bits give zero; a case split over the amount (exact)
        bits = hi.bit_length()
        blo, bhi = T.bounds(b.t)
        top = bits if bhi is None else min(bits, bhi + 1)
        r = 0
        for k in range(top - 1, -1, -1):
            sh = T.emod(T.mul(a.t, 1 << k), hi + 1) if trait == "Shl" else T.ediv(a.t, 1 << k)
            r = T.ite(T.eq(b.t, k), sh, r)
        return IntV(r, ty)
    return NOT_BUILTIN


def big_method(ex, c, args, dty):
    m = re.match(r"^(?:numext_fixed_uint::|numext_fixed_uint_core::|ckb_types::)?(?:\w+::)*<?(?:impl )?(U256|U512|U128)>?::(\w+)$", c)
    if not m:
        m2 = re.match(r"^<&?(?:'\w+ )?(U256|U512|U128) as (?:std::|core::)?(?:\w+::)*(\w+)(?:<(.*)>)?>::(\w+)$", c)
        if m2:
            a = deref(ex, args[0]) if args else None
            b = deref(ex, args[1]) if len(args) > 1 else None
            ty, trait, targ, method = m2.groups()
            if trait == "From" and method == "from" and isinstance(a, IntV):
                return IntV(a.t, ty)
            if trait == "Ord" and method == "cmp":
                return mk_ordering(a.t, b.t)
            if trait == "PartialOrd":
                f = {"lt": T.lt, "le": T.le, "gt": T.gt, "ge": T.ge}.get(method)
                if f:
                    return BoolV(f(a.t, b.t))
            if trait == "PartialEq":
                return BoolV(T.eq(a.t, b.t) if method == "eq" else T.ne(a.t, b.t))
            if trait == "Clone":
                return a
            if trait in ("ShlAssign", "ShrAssign", "AddAssign", "SubAssign", "MulAssign", "DivAssign", "RemAssign") and isinstance(args[0], RefV):
                r = big_trait(ex, ty, trait[:-6], targ, method, a, b, ty)
                if r is NOT_BUILTIN:
                    return NOT_BUILTIN
                _wr(ex, args[0], r)
                return UNIT
            return big_trait(ex, ty, trait, targ, method, a, b, dty)
        return NOT_BUILTIN
    ty, name = m.groups()
    lo, hi = ty_range(ty)
    a = deref(ex, args[0]) if args else None
    if name == "zero":
        return IntV(0, ty)
    if name == "one":
        return IntV(1, ty)
    if name == "max_value":
        return IntV(hi, ty)
    if name == "min_value":
        return IntV(0, ty)
    if name == "is_zero":
        return BoolV(T.eq(a.t, 0))
    if name == "is_max":
        return BoolV(T.eq(a.t, hi))
    if name == "leading_zeros" and isinstance(a, IntV):
        bits = hi.bit_length()
        r = bits
        for k in range(bits):
            r = T.ite(T.ge(a.t, 1 << k), bits - 1 - k, r)
        return IntV(r, "u32")
    b = deref(ex, args[1]) if len(args) > 1 else None
    mm = re.match(r"(checked|saturating|overflowing)_(add|sub|mul)$", name)
    if mm and isinstance(a, IntV) and isinstance(b, IntV):
        r = {"add": T.add, "sub": T.sub, "mul": T.mul}[mm.group(2)](a.t, b.t)
        inr = T.and_(T.le(lo, r), T.le(r, hi))
        if mm.group(1) == "checked":
            return mk_option(inr, IntV(r, ty), dty)
        if mm.group(1) == "saturating":
            return IntV(T.ite(T.lt(r, lo), lo, T.ite(T.gt(r, hi), hi, r)), ty)
        return AggV((IntV(T.ite(inr, r, T.emod(r, hi + 1)), ty), BoolV(T.not_(inr))), dty)
    if name in ("checked_div", "checked_rem") and isinstance(a, IntV) and isinstance(b, IntV):
        return mk_option(T.ne(b.t, 0), IntV(T.ediv(a.t, b.t) if name == "checked_div" else T.emod(a.t, b.t), ty), dty)
    return NOT_BUILTIN


# ---------------------------------------------------------------- Vec / slice (concrete length) and Range
def _wr(ex, ref, val):
    ex._write(ref.frame, ref.local, list(ref.proj), val)


def list_builtin(ex, fr, c, args, dty):
    m = re.match(r"^(?:std::vec::|alloc::vec::)?Vec::<(.*)>::(new|with_capacity)$", c)
    if m:
        return ListV((), "Vec<" + m.group(1) + ">")
    m = re.match(r"^(?:std::vec::|alloc::vec::)?Vec::<(.*)>::(push|len|is_empty|clear)$", c)
    if m and isinstance(args[0], RefV):
        v = deref(ex, args[0])
        if isinstance(v, ListV):
            op = m.group(2)
            if op == "push":
                _wr(ex, args[0], ListV(v.items + (args[1],), v.ty))
                return UNIT
            if op == "len":
                return IntV(len(v.items), "usize")
            if op == "is_empty":
                return BoolV(len(v.items) == 0)
            if op == "clear":
                _wr(ex, args[0], ListV((), v.ty))
                return UNIT
    m = re.match(r"^(?:std::vec::|alloc::vec::)?Vec::<(.*)>::(insert|remove|pop|truncate)$", c)
    if m and isinstance(args[0], RefV):
        v = deref(ex, args[0])
        op = m.group(2)
        if isinstance(v, ListV) and (op == "pop" or (isinstance(args[1], IntV) and isinstance(args[1].t, int))):
            n = len(v.items)
            if op == "pop":
                _wr(ex, args[0], ListV(v.items[:-1], v.ty))
                return mk_option(n > 0, v.items[-1] if n else None, dty)
            i = args[1].t
            if op == "insert":
                if i > n:
                    raise Panic("insertion index out of bounds")
                _wr(ex, args[0], ListV(v.items[:i] + (args[2],) + v.items[i:], v.ty))
                return UNIT
            if op == "remove":
                if i >= n:
                    raise Panic("removal index out of bounds")
                _wr(ex, args[0], ListV(v.items[:i] + v.items[i + 1:], v.ty))
                return v.items[i]
            if op == "truncate":
                _wr(ex, args[0], ListV(v.items[:i], v.ty))
                return UNIT
    m = re.match(r"^<(?:std::vec::|alloc::vec::)?Vec<(.*)> as (?:std::ops::|core::ops::)?(Deref|DerefMut)>::deref(_mut)?$", c)
    if m and isinstance(args[0], RefV) and isinstance(deref(ex, args[0]), ListV):
        return args[0]
    m = re.match(r"^core::slice::<impl \[(.*)\]>::(sort_unstable|sort|len|is_empty)$", c)
    if m and isinstance(args[0], RefV):
        v = deref(ex, args[0])
        if isinstance(v, ListV):
            op = m.group(2)
            if op == "len":
                return IntV(len(v.items), "usize")
            if op == "is_empty":
                return BoolV(len(v.items) == 0)
            if all(isinstance(x, IntV) for x in v.items):
                # sorting network (bubble): exact for any values, no branching
                xs = [x.t for x in v.items]
                ty = v.items[0].ty if v.items else "u64"
                n = len(xs)
                for i in range(n):
                    for j in range(n - 1 - i):
                        a, b = xs[j], xs[j + 1]
                        xs[j], xs[j + 1] = T.imin(a, b), T.imax(a, b)
                _wr(ex, args[0], ListV(tuple(IntV(x, ty) for x in xs), v.ty))
                return UNIT
    m = re.match(r"^core::slice::<impl \[(.*)\]>::(sort_unstable_by_key|sort_by_key)(::<.*>)?$", c)
    if m and isinstance(args[0], RefV):
        v = deref(ex, args[0])
        if isinstance(v, ListV) and len(v.items) <= 4:
            # insertion sort on the keys computed by the real key closure; every comparison of symbolic keys forks the path
            # (an unstable sort may order equal keys either way: equal keys keep their input order here, which is one of the allowed results)
            items = list(v.items)
            keys = []
            for it in items:
                k = ex.call_value(fr, args[1], [ex.ctx.ref_to(it)], "?")
                if not isinstance(k, IntV):
                    raise Unsupported("sort key is not an integer")
                keys.append(k.t)
            order = []
            for i in range(len(items)):
                pos = len(order)
                for j, oj in enumerate(order):
                    if ex.decide(T.lt(keys[i], keys[oj])):
                        pos = j
                        break
                order.insert(pos, i)
            _wr(ex, args[0], ListV(tuple(items[i] for i in order), v.ty))
            return UNIT
    m = re.match(r"^<(?:std::vec::|alloc::vec::)?Vec<(.*)> as (?:std::ops::|core::ops::)?Index<usize>>::index$", c) or \
        re.match(r"^<\[(.*)\] as (?:std::ops::|core::ops::)?Index<usize>>::index$", c)
    if m and isinstance(args[0], RefV):
        v = deref(ex, args[0])
        if isinstance(v, ListV) and isinstance(args[1], IntV):
            i = args[1].t
            n = len(v.items)
            if isinstance(i, int):
                if i >= n:
                    raise Panic("index out of bounds")
                return ex.ctx.ref_to(v.items[i])
            if not ex.decide(T.lt(i, n)):
                raise Panic("index out of bounds")
            if all(isinstance(x, IntV) for x in v.items) and n:
                r = v.items[-1].t
                for k in range(n - 2, -1, -1):
                    r = T.ite(T.eq(i, k), v.items[k].t, r)
                return ex.ctx.ref_to(IntV(r, v.items[0].ty))
    m = re.match(r"^<(?:std::vec::|alloc::vec::)?Vec<(.*)> as (?:std::ops::|core::ops::)?Index<(?:std::ops::|core::ops::)?RangeFull>>::index$", c) or \
        re.match(r"^<\[(.*)\] as (?:std::ops::|core::ops::)?Index<(?:std::ops::|core::ops::)?RangeFull>>::index$", c)
    if m and isinstance(args[0], RefV) and isinstance(deref(ex, args[0]), ListV):
        return args[0]
    m = re.match(r"^<&(?:'\w+ )?\[(.*)\] as (?:std::iter::|core::iter::)?IntoIterator>::into_iter$|^<&(?:'\w+ )?(?:std::vec::)?Vec<(.*)> as (?:std::iter::|core::iter::)?IntoIterator>::into_iter$", c)
    if m and isinstance(deref(ex, args[0]), ListV):
        return AggV((deref(ex, args[0]), IntV(0, "usize")), "ListIterRef")
    # owning / borrowing iteration over a concrete-length list
    m = re.match(r"^<(?:std::vec::|alloc::vec::)?Vec<(.*)> as (?:std::iter::|core::iter::)?IntoIterator>::into_iter$", c)
    if m and isinstance(deref(ex, args[0]), ListV):
        return AggV((deref(ex, args[0]), IntV(0, "usize")), "ListIter")
    m = re.match(r"^core::slice::<impl \[(.*)\]>::iter$", c)
    if m and isinstance(deref(ex, args[0]), ListV):
        return AggV((deref(ex, args[0]), IntV(0, "usize")), "ListIterRef")
    m = re.match(r"^<(?:std::vec::|alloc::vec::)?IntoIter<(.*)> as (?:std::iter::|core::iter::)?IntoIterator>::into_iter$|^<(?:std::slice::|core::slice::)?Iter<'_, (.*)> as (?:std::iter::|core::iter::)?IntoIterator>::into_iter$", c)
    if m and isinstance(deref(ex, args[0]), AggV) and deref(ex, args[0]).ty.startswith("ListIter"):
        return args[0]
    m = re.match(r"^<(?:std::vec::|alloc::vec::)?IntoIter<(.*)> as (?:std::iter::|core::iter::)?Iterator>::next$|^<(?:std::slice::|core::slice::)?Iter<'_, (.*)> as (?:std::iter::|core::iter::)?Iterator>::next$", c)
    if m and isinstance(args[0], RefV):
        it = deref(ex, args[0])
        if isinstance(it, AggV) and it.ty.startswith("ListIter"):
            lst, pos = it.fields
            if pos.t < len(lst.items):
                _wr(ex, args[0], AggV((lst, IntV(pos.t + 1, "usize")), it.ty))
                item = lst.items[pos.t]
                return mk_option(True, ex.ctx.ref_to(item) if it.ty == "ListIterRef" else item, dty)
            return mk_option(False, None, dty)
    m = re.match(r"^<(?:std::slice::|core::slice::)?Iter<'_, (.*)> as (?:std::iter::|core::iter::)?Iterator>::fold(::<.*)?$", c)
    if m:
        it = deref(ex, args[0])
        if isinstance(it, AggV) and it.ty.startswith("ListIter"):
            lst, pos = it.fields
            acc = args[1]
            for item in lst.items[pos.t:]:
                acc = ex.call_value(fr, args[2], [acc, ex.ctx.ref_to(item) if it.ty == "ListIterRef" else item], "")
            return acc
    # RangeInclusive<int>: (start, end, exhausted)
    m = re.match(r"^(?:std::ops::|core::ops::)?RangeInclusive::<(\w+)>::new$", c)
    if m:
        return AggV((args[0], args[1], BoolV(False)), "RangeInclusive<%s>" % m.group(1))
    m = re.match(r"^<(?:std::ops::|core::ops::)?RangeInclusive<(\w+)> as (?:std::iter::|core::iter::)?IntoIterator>::into_iter$", c)
    if m:
        return args[0]
    m = re.match(r"^<(?:std::ops::|core::ops::)?RangeInclusive<(\w+)> as (?:std::iter::|core::iter::)?Iterator>::next$", c)
    if m and isinstance(args[0], RefV):
        r = deref(ex, args[0])
        if isinstance(r, AggV) and len(r.fields) == 3 and isinstance(r.fields[0], IntV):
            start, end, done = r.fields
            if isinstance(done, BoolV) and done.t is True:
                return mk_option(False, None, dty)
            if ex.decide(T.le(start.t, end.t)):
                if ex.decide(T.lt(start.t, end.t)):
                    _wr(ex, args[0], AggV((IntV(T.add(start.t, 1), start.ty), end, BoolV(False)), r.ty))
                else:
                    _wr(ex, args[0], AggV((start, end, BoolV(True)), r.ty))
                return mk_option(True, start, dty)
            return mk_option(False, None, dty)
    # Range<int>
    m = re.match(r"^<(?:std::ops::|core::ops::)?Range<(\w+)> as (?:std::iter::|core::iter::)?IntoIterator>::into_iter$", c)
    if m:
        return args[0]
    m = re.match(r"^<(?:std::ops::|core::ops::)?Range<(\w+)> as (?:std::iter::|core::iter::)?Iterator>::next$", c)
    if m and isinstance(args[0], RefV):
        r = deref(ex, args[0])
        if isinstance(r, AggV) and len(r.fields) == 2 and isinstance(r.fields[0], IntV):
            start, end = r.fields
            if ex.decide(T.lt(start.t, end.t)):
                _wr(ex, args[0], AggV((IntV(T.add(start.t, 1), start.ty), end), r.ty))
                return mk_option(True, start, dty)
            return mk_option(False, None, dty)
    return NOT_BUILTIN
