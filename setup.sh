#!/bin/bash
# Warm caches (offline): native replay driver, MIR dumps, Kani harness crates. Safe to re-run.
cd "$(dirname "$0")"
export CARGO_NET_OFFLINE=true
mkdir -p work/logs evidence
python3-vt - <<'PY'
import sys, os
sys.path.insert(0, "/verif")
from vlib import native, kani
n = native.Native("/verif/work/logs"); n.ensure(); print("native:", n.bin or n.build_error)
n = native.Native("/verif/work/logs", "native_pool", "vnative_pool"); n.ensure(); print("native_pool:", n.bin or n.build_error)
from mir2smt.dump import dump
import glob, importlib
crates = set(); kcr = set()
for p in sorted(glob.glob("/verif/obligations/c*.py")):
    m = importlib.import_module("obligations." + os.path.basename(p)[:-3])
    crates |= set(getattr(m, "CRATES", []))
    kcr |= {k["crate"] for k in getattr(m, "KANI", [])}
for c in sorted(crates):
    print("mir", c, dump(c))
for c in sorted(kcr):
    print("kani build", c, kani.build(c, "/verif/work/logs")[:2])
PY
